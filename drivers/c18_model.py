"""C18 helper: abstract (symbolic) model of references / IOSpecs and the op alphabet.

Pure Python, never touches modelx: used (a) to enumerate histories inside the bound without
running anything, (b) as the reference model the real modelx is compared with after every step.

Locations: "M1" (model level), "M1.A", "M1.A.C" (child of A), "M1.B", "M2", "M2.A".
Value tokens: df1 df2 sr1 (get specs), df3 (plain value), df4 df5 (fresh values for update),
dfU (never bound), one (the int 1), ifB (the space M1.B itself), mod0 mod1 ... (module objects).

Ops (plain tuples):
  ("np", loc, name, tok, fskey)        loc.new_pandas(name, path, value, file_type, sheet)
  ("nm", loc, name, modkey, mpkey)     loc.new_module(name, path, source file)
  ("bind", loc, name, tok)             loc.name = value
  ("delref", loc, name)                del loc.name          (a reference)
  ("delspace", path)                   del parent.<space>
  ("delcells", loc, name)              del loc.<cells>
  ("upd", model, oldtok, newtok|None)    model.update_pandas(old[, new])
  ("updmod", model, oldtok, modkey|None) model.update_module(old[, new source file])
  ("addb",) / ("rmb",)                 M1.B.add_bases(M1.A) / remove_bases
  ("close", model)
  ("setpath", idx, newpath)            spec.path = newpath
  ("setsheet", idx, sheet)             spec.sheet = sheet
  ("mrename", model, newname)
"""
import copy

NAMES = ("d", "e")
PANDAS_SPEC_VALUES = ("df1", "df2", "sr1")
FRESH_VALUES = ("df4", "df5")
MAXSPECS = 3

# key -> (path, file_type, sheet); a leading '@' means "absolute, inside the temp dir"
FS = {
    "X0": ("f.xlsx", "excel", None),
    "X1": ("f.xlsx", "excel", "s1"),
    "X2": ("f.xlsx", "excel", "s2"),
    "Y1": ("sub/g.xlsx", "excel", "s1"),
    "CSV": ("g.csv", "csv", None),
    "ABS1": ("@abs.xlsx", "excel", "s1"),
    "ABS2": ("@abs.xlsx", "excel", "s2"),
    "BOGUS": ("z.xlsx", "bogus", None),
    "Z": ("z.xlsx", "excel", None),
}
MP = {"MP1": "mods/m.py", "MP2": "n.py"}
FRESH_PATH = {"excel": "moved/f2.xlsx", "csv": "moved/g2.csv", "module": "moved/m2.py"}


def model_of(loc):
    return loc.split(".")[0]


def level_of(loc):
    return ("model-level", "space-level", "nested-space")[loc.count(".")]


def is_plain_tok(tok):
    return tok in ("one", "ifB")


class Spec:
    __slots__ = ("idx", "model", "kind", "file", "ftype", "sheet", "tok", "alive")

    def __init__(self, idx, model, kind, file, ftype, sheet, tok):
        self.idx, self.model, self.kind, self.file = idx, model, kind, file
        self.ftype, self.sheet, self.tok, self.alive = ftype, sheet, tok, True

    def same_file(self, other_model, other_file):
        if self.file.startswith("@") or other_file.startswith("@"):
            return self.file == other_file
        return self.model == other_model and self.file == other_file


class Abs:
    def __init__(self):
        self.open = {"M1": True, "M2": True}
        self.spaces = {"M1.A", "M1.A.C", "M1.B", "M2.A"}
        self.cells = {("M1.A", "c1"): "nonscalar", ("M1.A", "c0"): "scalar"}
        self.refs = {}            # (loc, name) -> tok      defined references only
        self.inh = False          # M1.B has base M1.A
        self.specs = []
        self.nmod = 0             # module tokens handed out
        self.bogus_tried = False
        self.renamed = False
        self.marks = frozenset()  # history-level features (kept for the write/read tags)

    def copy(self):
        b = Abs.__new__(Abs)
        b.open = dict(self.open); b.spaces = set(self.spaces); b.cells = dict(self.cells)
        b.refs = dict(self.refs); b.inh = self.inh; b.nmod = self.nmod
        b.bogus_tried = self.bogus_tried; b.renamed = self.renamed; b.marks = self.marks
        b.specs = []
        for s in self.specs:
            t = Spec(s.idx, s.model, s.kind, s.file, s.ftype, s.sheet, s.tok)
            t.alive = s.alive
            b.specs.append(t)
        return b

    # ------------------------------------------------------------- queries
    def loc_ok(self, loc):
        m = model_of(loc)
        return self.open[m] and (loc == m or loc in self.spaces)

    def defined(self, loc, name):
        return self.refs.get((loc, name))

    def visible(self, loc, name):
        """Token the name resolves to among the references of `loc` (None: no such reference)."""
        t = self.refs.get((loc, name))
        if t is not None:
            return t
        if loc == "M1.B" and self.inh:
            t = self.refs.get(("M1.A", name))
            if t is not None:
                return t
        m = model_of(loc)
        if loc != m:
            return self.refs.get((m, name))
        return None

    def holders(self, tok, model):
        return sorted(k for k, t in self.refs.items() if t == tok and model_of(k[0]) == model)

    def bound_toks(self, model):
        return {t for k, t in self.refs.items() if model_of(k[0]) == model}

    def live(self, model=None):
        return [s for s in self.specs if s.alive and (model is None or s.model == model)]

    def spec_of(self, tok, model):
        return next((s for s in self.specs if s.alive and s.model == model and s.tok == tok), None)

    def free_name(self, loc):
        for n in NAMES:
            if (loc, n) not in self.refs:
                return n
        return None

    def namekind(self, loc, name):
        m = model_of(loc)
        if loc == m:
            return "name-is-space" if (m + "." + name) in self.spaces else "ok"
        if (loc, name) in self.cells:
            return "name-is-" + self.cells[(loc, name)] + "-cells"
        if (loc + "." + name) in self.spaces:
            return "name-is-space"
        if not name.isidentifier() or name.startswith("_"):
            return "name-invalid"
        return "ok"

    def loc_conflict(self, model, file, ftype, sheet, skip=None):
        """'definite' / 'soft' / None: does (file, sheet) collide with a live spec?"""
        res = None
        for s in self.specs:
            if not s.alive or s is skip or not s.same_file(model, file):
                continue
            if ftype != "excel" or s.ftype != "excel" or s.sheet == sheet:
                return "definite"
            if s.sheet is None or sheet is None:
                res = "soft"
        return res

    def _refresh(self):
        for s in self.specs:
            if s.alive:
                s.alive = self.open[s.model] and s.tok in self.bound_toks(s.model)

    # ------------------------------------------------------------- prediction
    def sub_defines(self, loc, name):
        """modelx refuses to define in a base space a name that a sub space defines itself."""
        return loc == "M1.A" and self.inh and (loc, name) not in self.refs and ("M1.B", name) in self.refs

    def predict(self, op):
        """(expected, accepted): expected in ok / reject / either (what the contract lets us demand),
        accepted = what the enumeration assumes happens."""
        k = op[0]
        if k in ("np", "nm", "bind") and self.sub_defines(op[1], op[2]):
            return "either", False
        if k == "np":
            _, loc, name, tok, fsk = op
            path, ftype, sheet = FS[fsk]
            nk = self.namekind(loc, name)
            cf = self.loc_conflict(model_of(loc), path, ftype, sheet)
            if ftype == "bogus" or cf == "definite" or nk in ("name-is-space", "name-is-nonscalar-cells", "name-invalid"):
                return "reject", False
            if cf == "soft":
                return "either", False
            if nk == "name-is-scalar-cells" or self.spec_of(tok, model_of(loc)) is not None:
                return "either", True
            return "ok", True
        if k == "nm":
            _, loc, name, modkey, mpk = op
            nk = self.namekind(loc, name)
            cf = self.loc_conflict(model_of(loc), MP[mpk], "module", None)
            if cf or nk in ("name-is-space", "name-is-nonscalar-cells", "name-invalid"):
                return "reject", False
            if nk == "name-is-scalar-cells":
                return "either", True
            return "ok", True
        if k == "upd":
            _, via, old, new = op
            m = model_of(via)
            if old not in self.bound_toks(m):
                return "reject", False
            if new == "one":
                return ("reject", False) if self.spec_of(old, m) else ("either", True)
            if new is not None and new != old and new in self.bound_toks(m):
                return "either", True
            return "ok", True
        if k == "updmod":
            _, via, old, modkey = op
            if old not in self.bound_toks(model_of(via)):
                return "reject", False
            return "ok", True
        if k == "setpath":
            _, idx, newpath = op
            s = self.specs[idx]
            for o in self.specs:
                if o.alive and o is not s and o.file != s.file and o.same_file(s.model, newpath):
                    return "reject", False
            # an absolute-path file that holds specs of several models cannot be moved into one model's folder:
            # modelx may refuse (the statement says nothing about moving files; refusing changes nothing)
            if s.file.startswith("@") and not str(newpath).startswith("@") and \
                    any(o.alive and o is not s and o.file == s.file and o.model != s.model for o in self.specs):
                return "either", True
            return "ok", True
        if k == "setsheet":
            _, idx, sheet = op
            s = self.specs[idx]
            if sheet == s.sheet:
                return "either", True
            if self.loc_conflict(s.model, s.file, s.ftype, sheet, skip=s) == "definite":
                return "reject", False
            return "ok", True
        return "ok", True

    # ------------------------------------------------------------- transition
    def apply(self, op, accepted, newtok=None):
        """Post-state, given whether the real (or predicted) operation was accepted."""
        if not accepted:
            if op[0] == "np" and FS[op[4]][1] == "bogus":
                self.bogus_tried = True
            return
        k = op[0]
        if k == "np":
            _, loc, name, tok, fsk = op
            path, ftype, sheet = FS[fsk]
            if self.namekind(loc, name) != "name-is-scalar-cells":
                self.refs[(loc, name)] = tok
            self.specs.append(Spec(len(self.specs), model_of(loc), "pandas", path, ftype, sheet, tok))
        elif k == "nm":
            _, loc, name, modkey, mpk = op
            tok = newtok or ("mod%d" % self.nmod)
            self.nmod += 1
            if self.namekind(loc, name) != "name-is-scalar-cells":
                self.refs[(loc, name)] = tok
            self.specs.append(Spec(len(self.specs), model_of(loc), "module", MP[mpk], "module", None, tok))
        elif k == "bind":
            _, loc, name, tok = op
            self.refs[(loc, name)] = tok
        elif k == "delref":
            del self.refs[(op[1], op[2])]
        elif k == "delspace":
            p = op[1]
            self.spaces = {s for s in self.spaces if not (s == p or s.startswith(p + "."))}
            self.refs = {kk: t for kk, t in self.refs.items() if not (kk[0] == p or kk[0].startswith(p + "."))}
            self.cells = {kk: t for kk, t in self.cells.items() if not (kk[0] == p or kk[0].startswith(p + "."))}
            if p in ("M1.A", "M1.B"):
                self.inh = False
        elif k == "delcells":
            del self.cells[(op[1], op[2])]
        elif k in ("upd", "updmod"):
            _, via, old, new = op
            m = model_of(via)
            if k == "updmod":
                new = newtok or ("mod%d" % self.nmod)
                self.nmod += 1
            if new is not None and new != old:
                if old.startswith("sr") and new.startswith("df"):
                    self.marks |= {"series-replaced-by-frame"}
                for kk in list(self.refs):
                    if model_of(kk[0]) == m and self.refs[kk] == old:
                        self.refs[kk] = new
                for s in self.specs:
                    if s.alive and s.model == m and s.tok == old:
                        s.tok = new
        elif k == "addb":
            self.inh = True
        elif k == "rmb":
            self.inh = False
        elif k == "close":
            m = op[1]
            self.open[m] = False
            self.refs = {kk: t for kk, t in self.refs.items() if model_of(kk[0]) != m}
            self.spaces = {s for s in self.spaces if model_of(s) != m}
            if m == "M1":
                self.inh = False
        elif k == "setpath":
            _, idx, newpath = op
            s = self.specs[idx]
            old = s.file
            if old.startswith("@") != newpath.startswith("@"):
                self.marks |= {"abs-to-rel-path" if old.startswith("@") else "rel-to-abs-path"}
            for o in self.specs:
                if o.alive and o.model == s.model and o.file == old:
                    o.file = newpath
        elif k == "setsheet":
            self.specs[op[1]].sheet = op[2]
        elif k == "mrename":
            self.renamed = True
        else:
            raise ValueError(op)
        self._refresh()

    # ------------------------------------------------------------- feature tags of an op in this state
    def features(self, op):
        k = op[0]
        f = [k]
        if k in ("np", "nm"):
            loc, name = op[1], op[2]
            m = model_of(loc)
            f.append(level_of(loc))
            nk = self.namekind(loc, name)
            if nk != "ok":
                f.append(nk)
            elif (loc, name) in self.refs:
                f.append("name-is-own-ref")
                f += self._loses(loc, name, None)
            elif self.visible(loc, name) is not None:
                f.append("name-shadows-ref")
            if k == "np":
                path, ftype, sheet = FS[op[4]]
                f.append(ftype)
                if path.startswith("@"):
                    f.append("abs-path")
                cf = self.loc_conflict(m, path, ftype, sheet)
                if cf:
                    f.append("location-taken" if cf == "definite" else "location-default-sheet-vs-named")
                elif any(s.alive and s.same_file(m, path) for s in self.specs):
                    f.append("shared-file-other-sheet")
                if self.spec_of(op[3], m) is not None:
                    f.append("value-already-has-spec")
                elif any(s.alive and s.tok == op[3] for s in self.specs):
                    f.append("value-has-spec-in-other-model")
                if op[3] == "sr1":
                    f.append("series")
                if self.bogus_tried and op[4] == "Z":
                    f.append("after-rejected-file-type")
            else:
                f.append("module")
                if self.loc_conflict(m, MP[op[4]], "module", None):
                    f.append("location-taken")
            if m == "M2":
                f.append("second-model")
        elif k == "bind":
            _, loc, name, tok = op
            f.append(level_of(loc))
            old = self.refs.get((loc, name))
            if old is None:
                f.append("new-name")
                if self.visible(loc, name) is not None:
                    f.append("overrides-derived" if (loc == "M1.B" and self.inh and ("M1.A", name) in self.refs)
                             else "name-shadows-ref")
                m = model_of(loc)
                if self.spec_of(tok, m) is not None:
                    f.append("further-name")
                f += self._foreign(m, {tok})
            else:
                f.append("rebind")
                if old == tok:
                    f.append("same-object")
                f += self._loses(loc, name, tok)
                f += self._foreign(model_of(loc), {old, tok})
            f.append({"one": "to-scalar", "ifB": "to-interface"}.get(tok, "to-object"))
        elif k == "delref":
            f.append(level_of(op[1]))
            f += self._loses(op[1], op[2], None)
            f += self._foreign(model_of(op[1]), {self.refs.get((op[1], op[2]))})
        elif k == "delspace":
            p = op[1]
            m = model_of(p)
            f.append(level_of(p))
            inside = [kk for kk in self.refs if kk[0] == p or kk[0].startswith(p + ".")]
            toks = {self.refs[kk] for kk in inside}
            outside = {t for kk, t in self.refs.items() if model_of(kk[0]) == m and kk not in inside}
            sp = [s for s in self.live(m) if s.tok in toks]
            if sp:
                f.append("holds-last-ref" if any(s.tok not in outside for s in sp) else "holds-one-of-refs")
                if any(kk[0] != p and self.refs[kk] in {s.tok for s in sp} for kk in inside):
                    f.append("ref-in-child-space")
            else:
                f.append("holds-no-spec-value")
            f += self._foreign(m, toks)
            if self.inh and p in ("M1.A", "M1.B"):
                f.append("base-space" if p == "M1.A" else "sub-space")
        elif k in ("upd", "updmod"):
            _, via, old, new = op
            m = model_of(via)
            f.append("via-" + level_of(via))
            f.append("has-spec" if self.spec_of(old, m) else "no-spec")
            n = len(self.holders(old, m))
            f.append("unbound-value" if n == 0 else "one-ref" if n == 1 else "multi-ref")
            if new is None:
                f.append("no-new-value")
            elif new == old:
                f.append("same-object")
            elif new == "one":
                f.append("to-scalar")
            elif new in self.bound_toks(m):
                f.append("new-value-already-bound")
            else:
                f.append("fresh-value")
            if self.inh and any(kk[0] == "M1.A" for kk in self.holders(old, m)):
                f.append("has-derived-ref")
        elif k == "close":
            m = op[1]
            f.append("has-live-spec" if self.live(m) else "no-live-spec")
            other = "M2" if m == "M1" else "M1"
            if self.live(other):
                f.append("other-model-has-spec")
                f += self._foreign(m, self.bound_toks(m))
        elif k == "setpath":
            s = self.specs[op[1]]
            f.append(s.ftype)
            f.append("path-taken" if self.predict(op)[0] == "reject" else "path-free")
            if s.file.startswith("@") != op[2].startswith("@"):
                f.append("abs-to-rel-path" if s.file.startswith("@") else "rel-to-abs-path")
            if sum(1 for o in self.live(s.model) if o.file == s.file) > 1:
                f.append("shared-file")
        elif k == "setsheet":
            f.append("sheet-taken" if self.predict(op)[0] == "reject" else "sheet-free")
        elif k in ("addb", "rmb"):
            toksA = {t for kk, t in self.refs.items() if kk[0] == "M1.A"}
            f.append("base-holds-spec-value" if any(s.tok in toksA for s in self.live("M1")) else "base-holds-no-spec-value")
        if self.inh and k not in ("addb", "rmb"):
            f.append("inheriting")
        if self.renamed:
            f.append("model-renamed")
        for mk in sorted(self.marks):
            if mk not in f:
                f.append(mk)
        return f

    def _foreign(self, model, toks):
        """Tags when the op in `model` touches a value whose spec belongs to the other model."""
        other = "M2" if model == "M1" else "M1"
        sp = [s for s in self.live(other) if s.tok in toks]
        if not sp:
            return []
        return ["value-has-spec-in-other-model"] + (["abs-path"] if any(s.file.startswith("@") for s in sp) else [])

    def _loses(self, loc, name, newtok):
        """Does overwriting/deleting (loc, name) take the last reference away from a spec'd value?"""
        old = self.refs.get((loc, name))
        m = model_of(loc)
        if old is None or self.spec_of(old, m) is None:
            return ["old-value-no-spec"]
        others = [kk for kk in self.holders(old, m) if kk != (loc, name)]
        if newtok == old:
            return ["last-ref" if not others else "other-refs-remain"]
        return ["last-ref"] if not others else ["other-refs-remain"]

    # ------------------------------------------------------------- enumeration
    def enabled(self):
        """(core, ext): ops enabled in this state.  `core` is the small alphabet used at full depth,
        `ext` varies one dimension of a core op at a time (location, name kind, file kind, value kind ...)."""
        core, ext = [], []
        add_c, add_e = core.append, ext.append
        o = self.open

        def fs_for(model):
            for kf in ("X1", "X2", "Y1"):
                p, ft, sh = FS[kf]
                if not self.loc_conflict(model, p, ft, sh):
                    return kf
            return "Y1"

        # ---- creation
        if len(self.specs) < MAXSPECS:
            used = {s.tok for s in self.specs}
            val = next((v for v in PANDAS_SPEC_VALUES if v not in used and v not in self.refs.values()), None)
            if self.loc_ok("M1.A") and val:
                loc = "M1.A"
                name = self.free_name(loc)
                fs = fs_for("M1")
                if name:
                    add_c(("np", loc, name, val, fs))
                    for kf in ("X0", "CSV", "ABS1", "ABS2", "Y1", "BOGUS"):
                        if kf != fs:
                            add_e(("np", loc, name, val, kf))
                    if self.bogus_tried:
                        add_e(("np", loc, name, val, "Z"))
                    if "sr1" not in used and val != "sr1" and "sr1" not in self.refs.values():
                        add_e(("np", loc, name, "sr1", "CSV"))
                    for s in self.live():
                        if s.kind == "pandas":
                            kf = next(kk for kk, v in FS.items() if v == (s.file, s.ftype, s.sheet)) \
                                if (s.file, s.ftype, s.sheet) in FS.values() else None
                            if kf and s.model == "M1":
                                add_e(("np", loc, name, val, kf))            # same location: must be refused
                            break
                    for s in self.live("M1"):
                        if s.kind == "pandas":
                            add_e(("np", loc, name, s.tok, fs))               # value already has a spec
                            break
                for n in NAMES:
                    if (loc, n) in self.refs:
                        add_e(("np", loc, n, val, fs))                        # name is an own reference
                        break
                for special in ("c1", "c0", "C", "1x"):
                    if special == "1x" or self.namekind(loc, special) != "ok":
                        add_e(("np", loc, special, val, fs))
                if self.namekind("M1", "A") != "ok":
                    add_e(("np", "M1", "A", val, fs))
                for l2 in ("M1", "M1.A.C", "M1.B"):
                    if self.loc_ok(l2) and self.free_name(l2):
                        add_e(("np", l2, self.free_name(l2), val, fs))
            if self.loc_ok("M2.A") and self.free_name("M2.A"):
                n2 = self.free_name("M2.A")
                if val:
                    add_e(("np", "M2.A", n2, val, fs_for("M2")))
                for s in self.live("M1"):
                    if s.kind == "pandas" and (s.file, s.ftype, s.sheet) in FS.values():
                        kf = next(kk for kk, v in FS.items() if v == (s.file, s.ftype, s.sheet))
                        add_e(("np", "M2.A", n2, s.tok, kf))                  # same value + same path, other model
                        if val and s.file.startswith("@"):
                            add_e(("np", "M2.A", n2, val, kf))                # absolute path taken by other model
                            add_e(("np", "M2.A", n2, val, "ABS2" if kf == "ABS1" else "ABS1"))
                        break
            if not any(s.kind == "module" for s in self.specs):
                if self.loc_ok("M1.A") and self.free_name("M1.A"):
                    add_c(("nm", "M1.A", self.free_name("M1.A"), "modA", "MP1"))
                    add_e(("nm", "M1.A", "c1", "modA", "MP1")) if ("M1.A", "c1") in self.cells else None
                if self.loc_ok("M1") and self.free_name("M1"):
                    add_e(("nm", "M1", self.free_name("M1"), "modA", "MP1"))
            else:
                s = next((s for s in self.live("M1") if s.kind == "module"), None)
                if s is not None and self.loc_ok("M1.A") and self.free_name("M1.A") and s.file in MP.values():
                    mpk = next(kk for kk, v in MP.items() if v == s.file)
                    add_e(("nm", "M1.A", self.free_name("M1.A"), "modB", mpk))     # same file: must be refused
                    add_e(("nm", "M1.A", self.free_name("M1.A"), "modB", "MP2"))

        # ---- bind to a further name / rebind
        seen_refs = []
        for s in self.live():
            hs = self.holders(s.tok, s.model)
            if not hs:
                continue
            h = hs[0][0]
            if s.model == "M1":
                tg_core = [h, "M1.B" if h != "M1.B" else "M1.A"]
                tg_ext = ["M1", "M1.A.C", "M1.A", "M2.A"]
            else:
                tg_core = [h]
                tg_ext = ["M2", "M1.A"]
            done = set()
            for l2, dst in [(l, add_c) for l in tg_core] + [(l, add_e) for l in tg_ext]:
                if l2 in done or not self.loc_ok(l2):
                    continue
                if s.kind == "module" and model_of(l2) != s.model:
                    continue        # (a module object bound in another model is pickled by name: unreadable, not C18's business)
                done.add(l2)
                n = self.free_name(l2)
                if n:
                    dst(("bind", l2, n, s.tok))
            for r in hs:
                if r not in seen_refs:
                    seen_refs.append(r)
        for (loc, name) in seen_refs[:4]:
            tok = self.refs[(loc, name)]
            add_c(("bind", loc, name, tok))
            add_c(("bind", loc, name, "one"))
            other = next((s.tok for s in self.live(model_of(loc)) if s.tok != tok), None)
            if other:
                add_e(("bind", loc, name, other))
            add_e(("bind", loc, name, "df3"))
            if model_of(loc) == "M1" and loc != "M1" and "M1.B" in self.spaces:
                add_e(("bind", loc, name, "ifB"))        # (space level only: see the note in c18.py)
        if self.inh and self.loc_ok("M1.B"):
            for n in NAMES:
                if ("M1.A", n) in self.refs and ("M1.B", n) not in self.refs:
                    add_e(("bind", "M1.B", n, self.refs[("M1.A", n)]))       # override a derived reference
                    add_e(("bind", "M1.B", n, "one"))
                    break
        if "df3" not in self.refs.values() and self.loc_ok("M1.A") and self.free_name("M1.A"):
            add_e(("bind", "M1.A", self.free_name("M1.A"), "df3"))

        # ---- delete
        for r in seen_refs[:4]:
            add_c(("delref",) + r)
        for kk, t in sorted(self.refs.items()):
            if kk not in seen_refs and o[model_of(kk[0])]:
                add_e(("delref",) + kk)
                break
        for p, dst in (("M1.A.C", add_c), ("M1.A", add_c), ("M1.B", add_e), ("M2.A", add_e)):
            if self.loc_ok(p):
                dst(("delspace", p))
        if ("M1.A", "c1") in self.cells and self.loc_ok("M1.A"):
            add_e(("delcells", "M1.A", "c1"))

        # ---- update
        fresh = next((v for v in FRESH_VALUES if v not in self.refs.values()), None)
        for s in self.live():
            hs = self.holders(s.tok, s.model)
            if not hs:
                continue
            if s.kind == "pandas":
                add_c(("upd", s.model, s.tok, None))
                if fresh:
                    add_c(("upd", s.model, s.tok, fresh))
                add_e(("upd", s.model, s.tok, s.tok))
                if "df3" in self.bound_toks(s.model):
                    add_e(("upd", s.model, s.tok, "df3"))
                add_e(("upd", s.model, s.tok, "one"))
            else:
                add_c(("updmod", s.model, s.tok, None))
                add_e(("updmod", s.model, s.tok, "modB"))
        if o["M1"]:
            if "df3" in self.bound_toks("M1") and fresh:
                add_e(("upd", "M1", "df3", fresh))
            add_e(("upd", "M1", "dfU", None))

        # ---- bases
        if self.loc_ok("M1.A") and self.loc_ok("M1.B"):
            add_c(("rmb",) if self.inh else ("addb",))

        # ---- close / rename
        if o["M1"]:
            add_c(("close", "M1"))
            if not self.renamed:
                add_e(("mrename", "M1", "M3"))
        if o["M2"]:
            add_e(("close", "M2"))

        # ---- spec attributes
        for s in self.live():
            add_e(("setpath", s.idx, FRESH_PATH[s.ftype]))
            if s.ftype == "excel" and not s.file.startswith("@"):
                add_e(("setpath", s.idx, "@abs.xlsx"))
            sib = next((x for x in self.live(s.model) if x.file != s.file and x.kind == s.kind and x.ftype == s.ftype), None)
            if sib is not None:
                add_e(("setpath", s.idx, sib.file))
            if s.ftype == "excel" and s.sheet is not None:
                add_e(("setsheet", s.idx, "s3"))
                sib = next((x for x in self.live(s.model) if x is not s and x.file == s.file and x.sheet), None)
                if sib is not None:
                    add_e(("setsheet", s.idx, sib.sheet))
        core = [x for x in core if x is not None]
        ext = [x for x in ext if x is not None and x not in core]
        # drop duplicates, keep order
        core = list(dict.fromkeys(core))
        ext = list(dict.fromkeys(ext))
        return core, ext


def enumerate_histories(prefix, depth, max_ext, min_ext=0):
    """All maximal histories extending `prefix` up to `depth` ops whose number of ext ops (prefix included)
    lies in [min_ext, max_ext].  Yields lists of ops (outcomes of the ops as `predict` assumes them)."""
    a = Abs()
    ext_used = 0
    for op in prefix:
        c, e = a.enabled()
        if op not in c:
            ext_used += 1
        a.apply(op, a.predict(op)[1])
    yield from _dfs(a, list(prefix), depth, ext_used, min_ext, max_ext)


def _dfs(a, hist, depth, ext_used, min_ext, max_ext):
    if len(hist) >= depth:
        if ext_used >= min_ext:
            yield list(hist)
        return
    if ext_used + (depth - len(hist)) < min_ext:
        return
    core, ext = a.enabled()
    ops = [(x, 0) for x in core] + ([(x, 1) for x in ext] if ext_used < max_ext else [])
    if not ops:
        if ext_used >= min_ext:
            yield list(hist)
        return
    for op, is_ext in ops:
        b = a.copy()
        b.apply(op, b.predict(op)[1])
        hist.append(op)
        yield from _dfs(b, hist, depth, ext_used + is_ext, min_ext, max_ext)
        hist.pop()
