"""Shared helper of the C07 / C11 / C13 drivers: a tiny *definition-level* model of a modelx model.

`Spec` holds definitions only (space tree, ordered direct bases, parameter formulas, *defined* cells with
their source / flags / inputs, *defined* refs); derived members are never stored.  Each editing operation
`op` (a tuple) has two interpretations:

    spec.apply(op)          the change of the definitions the operation stands for (documented meaning)
    live_apply(model, op)   the same operation on a real modelx model through the public API

`build(spec, name)` constructs a fresh real model from a Spec with no evaluation in between; it is the
"rebuilt from the definitions only" side of every differential oracle.  Nothing here looks at private
modelx state except through `describe`, which uses the same accessors as common.describe_model.
"""
import copy, inspect, itertools, time
from common import mx, is_iface
from modelx.core.errors import DeletedObjectError

# ---------------------------------------------------------------------------------------------- spec

def S_(bases=(), formula=None, cells=None, refs=None, spaces=None):
    """space spec.  formula: None | dict(params="i, j=2", base=None|path, refs=None|{name: expr}) | raw str
    (optional keys with a base: base_key="bases" -> spelled {'bases': [...]}; base_expr=text naming the base)"""
    return {"bases": [tuple(b) for b in bases], "formula": formula,
            "cells": dict(cells or {}), "refs": dict(refs or {}), "spaces": dict(spaces or {})}


def C_(src, allow_none=None, is_cached=True, inputs=None):
    return {"src": src, "allow_none": allow_none, "is_cached": is_cached, "inputs": dict(inputs or {})}


def lit(v, mode="auto"):
    return ("lit", v, mode)


def obj(path, mode="auto"):
    return ("obj", tuple(path), mode)


def formula_src(f):
    if f is None or isinstance(f, str):
        return f
    parts = []
    if f.get("base") is not None:
        # the selected space is named by its path from the model unless "base_expr" gives another spelling
        # (e.g. the name of a ref bound to it); "base" stays the definition-level meaning either way
        expr = f.get("base_expr") or "_model.%s" % ".".join(f["base"])
        if f.get("base_key") == "bases":
            parts.append("'bases': [%s]" % expr)
        else:
            parts.append("'base': %s" % expr)
    if f.get("refs") is not None:
        parts.append("'refs': {%s}" % ", ".join("%r: %s" % (k, e) for k, e in f["refs"].items()))
    body = "{%s}" % ", ".join(parts) if parts else "None"
    return "lambda %s: %s" % (f["params"], body)


class Spec:
    def __init__(self, refs=None, spaces=None):
        self.refs = dict(refs or {})
        self.spaces = dict(spaces or {})

    def copy(self):
        return copy.deepcopy(self)

    # -- navigation
    def space(self, path):
        d = self.spaces
        s = None
        for n in path:
            s = d[n]
            d = s["spaces"]
        return s

    def has_space(self, path):
        try:
            return bool(path) and self.space(path) is not None
        except KeyError:
            return False

    def container(self, path):
        """dict holding the space `path`"""
        return self.space(path[:-1])["spaces"] if len(path) > 1 else self.spaces

    def walk(self):
        """(path, space spec) of every space, parents first"""
        def rec(prefix, d):
            for n, s in d.items():
                p = prefix + (n,)
                yield p, s
                yield from rec(p, s["spaces"])
        yield from rec((), self.spaces)

    # -- inheritance, computed from the definitions with CPython's own C3
    def mro(self, path):
        """linearisation of `path` (list of paths, self first) by CPython's C3; raises TypeError if none,
        RecursionError/ValueError on a cycle"""
        classes = {}
        stack = set()

        def cls(p):
            if p in classes:
                return classes[p]
            if p in stack:
                raise ValueError("cycle")
            stack.add(p)
            bs = tuple(cls(b) for b in self.space(p)["bases"])
            stack.discard(p)
            c = type("_".join(p), bs or (object,), {"_p": p})
            classes[p] = c
            return c
        return [k._p for k in cls(path).__mro__ if k is not object]

    def all_cells(self, path):
        """name -> (defining space path, cells spec) for defined + derived cells of `path`"""
        out = {}
        for p in reversed(self.mro(path)):
            for n, c in self.space(p)["cells"].items():
                out[n] = (p, c)
        return out

    def all_refs(self, path):
        out = {}
        for p in reversed(self.mro(path)):
            for n, r in self.space(p)["refs"].items():
                out[n] = (p, r)
        return out

    def subs(self, path):
        """paths of spaces having `path` in their mro (excluding itself)"""
        return [p for p, _ in self.walk() if p != path and path in self.mro(p)]

    # -- edits (documented meaning on definitions)
    def apply(self, op):
        k = op[0]
        if k == "new_cells":
            _, sp, name, src = op
            self.space(sp)["cells"][name] = C_(src)
        elif k == "set_cformula":
            _, cp, src = op
            s = self.space(cp[:-1])
            if cp[-1] in s["cells"]:
                s["cells"][cp[-1]]["src"] = src
            else:                                   # overriding a derived cells defines it here
                base = self.all_cells(cp[:-1])[cp[-1]][1]
                s["cells"][cp[-1]] = C_(src, base["allow_none"], base["is_cached"])
        elif k == "del_cells":
            _, sp, name = op
            del self.space(sp)["cells"][name]
        elif k == "rename_cells":
            _, cp, new = op
            s = self.space(cp[:-1])
            s["cells"] = {(new if n == cp[-1] else n): c for n, c in s["cells"].items()}
            self._retarget(cp, cp[:-1] + (new,))
        elif k == "set_ref":
            _, sp, name, val = op
            (self.space(sp)["refs"] if sp else self.refs)[name] = val
        elif k == "del_ref":
            _, sp, name = op
            del (self.space(sp)["refs"] if sp else self.refs)[name]
        elif k == "new_space":
            _, pp, name, bases, formula = op
            (self.space(pp)["spaces"] if pp else self.spaces)[name] = S_(bases=bases, formula=formula)
        elif k == "del_space":
            _, p = op
            del self.container(p)[p[-1]]
            for _, s in self.walk():
                s["bases"] = [b for b in s["bases"] if b[:len(p)] != p]
        elif k == "rename_space":
            _, p, new = op
            c = self.container(p)
            items = [((new if n == p[-1] else n), s) for n, s in c.items()]
            c.clear()
            c.update(items)
            self._retarget(p, p[:-1] + (new,))
        elif k == "add_bases":
            _, p, b = op
            if tuple(b) not in self.space(p)["bases"]:
                self.space(p)["bases"].append(tuple(b))
        elif k == "remove_bases":
            _, p, b = op
            self.space(p)["bases"].remove(tuple(b))
        elif k == "set_sformula":              # optional 4th element: the public spelling used (see sformula_form)
            p, f = op[1], op[2]
            if f is not None and sformula_form(op) == "parameters":
                f = {"params": f["params"]}        # `s.parameters = (...)` can only say "lambda <params>: None"
            self.space(p)["formula"] = f
        elif k == "set_prop":
            _, cp, prop, v = op
            s = self.space(cp[:-1])
            if cp[-1] not in s["cells"]:
                base = self.all_cells(cp[:-1])[cp[-1]][1]
                s["cells"][cp[-1]] = copy.deepcopy(base)
                s["cells"][cp[-1]]["inputs"] = {}
            s["cells"][cp[-1]][prop] = v
        elif k == "set_input":
            _, cp, key, v = op
            self.space(cp[:-1])["cells"][cp[-1]]["inputs"][key] = v
        elif k == "clear_model":                   # documented: clears input values too
            for _, s in self.walk():
                for c in s["cells"].values():
                    c["inputs"] = {}
        elif k == "clear_space":                   # documented: recursive, inputs included
            p = tuple(op[1])
            for q, s in self.walk():
                if q[:len(p)] == p:
                    for c in s["cells"].values():
                        c["inputs"] = {}
        elif k in NONDEF_OPS:
            pass
        else:
            raise AssertionError(op)
        return self

    def _retarget(self, old, new):
        """a renamed object keeps being the target of bases and object refs"""
        n = len(old)

        def fix(p):
            return new + p[n:] if p[:n] == old else p
        for _, s in self.walk():
            s["bases"] = [fix(b) for b in s["bases"]]
            for rn, r in list(s["refs"].items()):
                if r[0] == "obj":
                    s["refs"][rn] = ("obj", fix(r[1]), r[2])
            f = s["formula"]
            # NB: a formula's source text naming the space by path is NOT rewritten (it is text)
        for rn, r in list(self.refs.items()):
            if r[0] == "obj":
                self.refs[rn] = ("obj", fix(r[1]), r[2])

    def exists(self, path):
        """does the object path (space or defined/derived cells) exist according to the definitions"""
        if self.has_space(path):
            return "space"
        if len(path) >= 2 and self.has_space(path[:-1]) and path[-1] in self.all_cells(path[:-1]):
            return "cells"
        return None


def sformula_form(op):
    """public spelling of a parameter-formula edit ("set_sformula", path, formula-or-None[, form]):
    set:     "assign" `s.formula = src` | "set_formula" `s.set_formula(src)` | "parameters" `s.parameters = (...)`
    delete:  "assign" `del s.formula`   | "del_formula" `s.del_formula()`    | "parameters" `del s.parameters`
             | "set_formula" `s.set_formula(None)`"""
    return op[3] if len(op) > 3 else "assign"


def param_strings(params):
    """'i, j=2' -> ('i', 'j=2') : the strings `s.parameters = ...` takes"""
    return tuple(x.strip() for x in params.split(",") if x.strip())


NONDEF_OPS = ("clear_model", "clear_space", "clear_cells", "clear_at", "clear_items", "del_item", "eval",
              "set_item_input", "touch_item")

# ---------------------------------------------------------------------------------------------- live


def get(m, path):
    """resolve a path on a live model; str element = attribute of a parent, tuple element = item args"""
    o = m
    for e in path:
        if isinstance(e, tuple):
            o = o[e] if len(e) != 1 else o[e[0]]
        elif hasattr(o, "spaces") and e in o.spaces:
            o = o.spaces[e]
        else:
            o = o.cells[e]
    return o


def dead_handle(m):
    """a handle whose object was deleted (stands for the value of a dangling object ref)"""
    s = m.new_space("Tmp__dead")
    c = s.new_cells("gone", formula="lambda x: x")
    del m.Tmp__dead
    return c


class Omit(Exception):
    pass


def ref_value(m, r, dangling="dead"):
    if r[0] == "lit":
        return r[1]
    try:
        return get(m, r[1])
    except (KeyError, AttributeError):
        if dangling == "omit":
            raise Omit()
        return dead_handle(m)


def set_ref(target, name, r, m, dangling="dead"):
    try:
        v = ref_value(m, r, dangling)
    except Omit:
        return
    if r[2] == "auto":
        setattr(target, name, v)
    elif r[2] == "absolute":
        target.absref(**{name: v})
    else:
        target.relref(**{name: v})


def live_apply(m, op):
    k = op[0]
    if k == "new_cells":
        return get(m, op[1]).new_cells(op[2], formula=op[3])
    if k == "set_cformula":
        get(m, op[1]).formula = op[2]
    elif k == "del_cells":
        delattr(get(m, op[1]), op[2])
    elif k == "rename_cells":
        get(m, op[1]).rename(op[2])
    elif k == "set_ref":
        set_ref(get(m, op[1]), op[2], op[3], m)
    elif k == "del_ref":
        delattr(get(m, op[1]), op[2])
    elif k == "new_space":
        bases = [get(m, b) for b in op[3]]
        return get(m, op[1]).new_space(op[2], bases=bases or None, formula=formula_src(op[4]))
    elif k == "del_space":
        delattr(get(m, op[1][:-1]), op[1][-1])
    elif k == "rename_space":
        get(m, op[1]).rename(op[2])
    elif k == "add_bases":
        get(m, op[1]).add_bases(get(m, op[2]))
    elif k == "remove_bases":
        get(m, op[1]).remove_bases(get(m, op[2]))
    elif k == "set_sformula":
        s = get(m, op[1])
        form = sformula_form(op)
        if op[2] is None:
            if form == "assign":
                del s.formula
            elif form == "del_formula":
                s.del_formula()
            elif form == "parameters":
                del s.parameters
            elif form == "set_formula":
                s.set_formula(None)
            else:
                raise AssertionError(op)
        elif form == "assign":
            s.formula = formula_src(op[2])
        elif form == "set_formula":
            s.set_formula(formula_src(op[2]))
        elif form == "parameters":
            s.parameters = param_strings(op[2]["params"])
        else:
            raise AssertionError(op)
    elif k == "set_prop":
        setattr(get(m, op[1]), op[2], op[3])
    elif k == "set_input":
        c = get(m, op[1])
        c[op[2]] = op[3]
    elif k == "clear_model":
        m.clear_all()
    elif k == "clear_space":
        get(m, op[1]).clear_all()
    elif k == "clear_cells":
        get(m, op[1]).clear()
    elif k == "clear_at":
        get(m, op[1]).clear_at(*op[2])
    elif k == "clear_items":
        get(m, op[1]).clear_items()
    elif k == "del_item":
        s = get(m, op[1])
        del s[op[2] if len(op[2]) != 1 else op[2][0]]
    elif k == "touch_item":
        get(m, op[1])
    elif k == "eval":
        evaluate(m)
    else:
        raise AssertionError(op)


def build(spec, name, dangling="dead"):
    """a fresh real model from definitions only (no evaluation).  An object ref whose target does not exist is
    bound to a deleted handle (dangling="dead") or left out (dangling="omit")"""
    m = mx.new_model(name)

    def mk(parent, nm, ss):
        s = parent.new_space(nm, formula=formula_src(ss["formula"]))
        for cn, cs in ss["cells"].items():
            c = s.new_cells(cn, formula=cs["src"], is_cached=cs["is_cached"])
            if cs["allow_none"] is not None:
                c.allow_none = cs["allow_none"]
        for n2, s2 in ss["spaces"].items():
            mk(s, n2, s2)
    for n, ss in spec.spaces.items():
        mk(m, n, ss)
    for p, ss in spec.walk():
        if ss["bases"]:
            get(m, p).add_bases(*[get(m, b) for b in ss["bases"]])
    for n, r in spec.refs.items():
        set_ref(m, n, r, m, dangling)
    for p, ss in spec.walk():
        for n, r in ss["refs"].items():
            set_ref(get(m, p), n, r, m, dangling)
    for p, ss in spec.walk():
        for cn, cs in ss["cells"].items():
            for key, v in cs["inputs"].items():
                get(m, p).cells[cn][key] = v
    return m


def strip_dangling(spec):
    """drop object refs whose target does not exist (in place); returns spec"""
    for n in [n for n, r in spec.refs.items() if r[0] == "obj" and not spec.exists(r[1])]:
        del spec.refs[n]
    for _, ss in spec.walk():
        for n in [n for n, r in ss["refs"].items() if r[0] == "obj" and not spec.exists(r[1])]:
            del ss["refs"][n]
    return spec


def dangling_spaces(spec):
    """paths of spaces whose namespace holds an object ref to something that no longer exists (all spaces when a
    model-level ref dangles)"""
    def gone(r):
        return r[0] == "obj" and not spec.exists(r[1])
    if any(gone(r) for r in spec.refs.values()):
        return {p for p, _ in spec.walk()}
    return {p for p, _ in spec.walk() if any(gone(r) for _, (_, r) in spec.all_refs(p).items())}


# ---------------------------------------------------------------------------------------------- observation

GRID = {0: [()], 1: [(0,), (2,)], 2: [(0, 1), (2, 1)]}


def norm(v):
    if is_iface(v):
        try:
            return ("iface", type(v).__name__, v.fullname.split(".", 1)[-1])
        except DeletedObjectError:
            return ("iface", type(v).__name__, "<deleted>")
    if isinstance(v, (list, tuple)):
        return tuple(norm(x) for x in v)
    return v


def eval_cells(c):
    """{args: ('v', value) | ('exc',)} over the argument grid"""
    out = {}
    for a in GRID.get(len(c.parameters), []):
        try:
            out[a] = ("v", norm(c(*a)))
        except Exception:
            out[a] = ("exc",)
    return out


def eval_space(s, recursive=True):
    """{relative path: eval_cells} of every cells of a (static or dynamic) space and its static children"""
    out = {}

    def rec(sp, prefix):
        for n in list(sp.cells):
            out[prefix + (n,)] = eval_cells(sp.cells[n])
        if recursive:
            for n in list(sp.named_spaces):
                rec(sp.named_spaces[n], prefix + (n,))
    rec(s, ())
    return out


def evaluate(m):
    out = {}
    for n in list(m.spaces):
        for k, v in eval_space(m.spaces[n]).items():
            out[(n,) + k] = v
    return out


def held(m):
    """values currently held by the static cells of a model: {cells path: {key: value}}"""
    out = {}

    def rec(sp, prefix):
        for n in list(sp.cells):
            c = sp.cells[n]
            out[prefix + (n,)] = {k: norm(v) for k, v in dict(c).items()}
        for n in list(sp.named_spaces):
            rec(sp.named_spaces[n], prefix + (n,))
    for n in list(m.spaces):
        rec(m.spaces[n], (n,))
    return out


def rel(fullname):
    return fullname.split(".", 1)[-1] if "." in fullname else ""


def describe(m, drop_dangling=False):
    """public description of the definitions of a model, model name stripped (comparable across models)"""
    def dref(parent, name):
        impl = parent._impl.own_refs[name] if hasattr(parent._impl, "own_refs") else parent._impl.global_refs[name]
        v = impl.interface
        if is_iface(v):
            val = ("iface", type(v).__name__, rel(v.fullname) if v._is_valid() else "<deleted>")
        else:
            val = ("value", repr(v))
        return {"value": val, "refmode": impl.refmode, "derived": impl.is_derived()}

    def dspace(s):
        d = {"bases": [rel(b.fullname) for b in s._direct_bases],
             "mro": [rel(b.fullname) for b in s.bases],
             "formula": s.formula.source if s.formula is not None else None,
             "cells": {}, "refs": {}, "spaces": {}}
        for n, c in s.cells.items():
            d["cells"][n] = {"formula": c.formula.source, "params": tuple(c.parameters),
                             "allow_none": c.allow_none, "is_cached": c.is_cached, "derived": c._is_derived(),
                             "inputs": sorted(((k, repr(c._impl.data[k])) for k in c._impl.input_keys), key=repr)}
        for n in s._own_refs:
            dr = dref(s, n)
            if drop_dangling and dr["value"][0] == "iface" and dr["value"][2] == "<deleted>":
                continue
            d["refs"][n] = dr
        for n, ch in s.named_spaces.items():
            d["spaces"][n] = dspace(ch)
        return d
    out = {"refs": {}, "spaces": {}}
    for n in m._impl.global_refs:
        if n != "__builtins__":
            impl = m._impl.global_refs[n]
            v = impl.interface
            if drop_dangling and is_iface(v) and not v._is_valid():
                continue
            out["refs"][n] = (("iface", rel(v.fullname) if v._is_valid() else "<deleted>") if is_iface(v)
                              else ("value", repr(v)))
    for n, s in m.spaces.items():
        out["spaces"][n] = dspace(s)
    return out


def diff(a, b, path=""):
    """first difference between two nested descriptions, as text (None when equal)"""
    if type(a) != type(b):
        return "%s: %r != %r" % (path, a, b)
    if isinstance(a, dict):
        for k in sorted(set(a) | set(b), key=repr):
            if k not in a:
                return "%s: only right has %r" % (path, k)
            if k not in b:
                return "%s: only left has %r" % (path, k)
            d = diff(a[k], b[k], "%s/%s" % (path, k))
            if d:
                return d
        return None
    if a != b:
        return "%s: %r != %r" % (path, a, b)
    return None


def is_dead(h):
    try:
        h.name
        return False
    except DeletedObjectError:
        return True


def bind(params, args, kwargs=None):
    """CPython's own binding of a call to a parameter list -> ordered {name: value} with defaults applied"""
    f = eval("lambda %s: None" % params)
    ba = inspect.signature(f).bind(*args, **(kwargs or {}))
    ba.apply_defaults()
    return dict(ba.arguments)


# ---------------------------------------------------------------------------------------------- replay code

def code_path(mvar, path):
    s = mvar
    for e in path:
        if isinstance(e, tuple):
            s += "[%s]" % ", ".join(repr(a) for a in e) if e else "()"
        else:
            s += "." + e
    return s


def code_ref(mvar, target, name, r):
    if r[0] == "lit":
        v = repr(r[1])
    else:
        v = code_path(mvar, r[1])
    if r[2] == "auto":
        return "%s.%s = %s" % (target, name, v)
    return "%s.%s(%s=%s)" % (target, "absref" if r[2] == "absolute" else "relref", name, v)


def code_build(spec, mvar="m", name="M"):
    """plain modelx statements that rebuild `spec` (same order of construction as build())"""
    L = ["%s = mx.new_model(%r)" % (mvar, name)]
    for p, ss in spec.walk():
        parent = code_path(mvar, p[:-1])
        f = formula_src(ss["formula"])
        L.append("%s.new_space(%r%s)" % (parent, p[-1], ", formula=%r" % f if f else ""))
        for cn, cs in ss["cells"].items():
            extra = "" if cs["is_cached"] else ", is_cached=False"
            L.append("%s.new_cells(%r, formula=%r%s)" % (code_path(mvar, p), cn, cs["src"], extra))
            if cs["allow_none"] is not None:
                L.append("%s.allow_none = %r" % (code_path(mvar, p + (cn,)), cs["allow_none"]))
    for p, ss in spec.walk():
        if ss["bases"]:
            L.append("%s.add_bases(%s)" % (code_path(mvar, p), ", ".join(code_path(mvar, b) for b in ss["bases"])))
    for n, r in spec.refs.items():
        L.append(code_ref(mvar, mvar, n, r))
    for p, ss in spec.walk():
        for n, r in ss["refs"].items():
            L.append(code_ref(mvar, code_path(mvar, p), n, r))
    for p, ss in spec.walk():
        for cn, cs in ss["cells"].items():
            for key, v in cs["inputs"].items():
                L.append("%s[%r] = %r" % (code_path(mvar, p + (cn,)), key, v))
    return "\n".join(L)


def code_op(op, mvar="m"):
    k = op[0]
    P = lambda p: code_path(mvar, p)
    if k == "new_cells":
        return "%s.new_cells(%r, formula=%r)" % (P(op[1]), op[2], op[3])
    if k == "set_cformula":
        return "%s.formula = %r" % (P(op[1]), op[2])
    if k == "del_cells":
        return "del %s.%s" % (P(op[1]), op[2])
    if k == "rename_cells":
        return "%s.rename(%r)" % (P(op[1]), op[2])
    if k == "set_ref":
        return code_ref(mvar, P(op[1]), op[2], op[3])
    if k == "del_ref":
        return "del %s.%s" % (P(op[1]), op[2])
    if k == "new_space":
        b = ", bases=[%s]" % ", ".join(P(x) for x in op[3]) if op[3] else ""
        f = ", formula=%r" % formula_src(op[4]) if op[4] else ""
        return "%s.new_space(%r%s%s)" % (P(op[1]), op[2], b, f)
    if k == "del_space":
        return "del %s" % P(op[1])
    if k == "rename_space":
        return "%s.rename(%r)" % (P(op[1]), op[2])
    if k == "add_bases":
        return "%s.add_bases(%s)" % (P(op[1]), P(op[2]))
    if k == "remove_bases":
        return "%s.remove_bases(%s)" % (P(op[1]), P(op[2]))
    if k == "set_sformula":
        form = sformula_form(op)
        if op[2] is None:
            return {"assign": "del %s.formula", "del_formula": "%s.del_formula()", "parameters": "del %s.parameters",
                    "set_formula": "%s.set_formula(None)"}[form] % P(op[1])
        if form == "parameters":
            return "%s.parameters = %r" % (P(op[1]), param_strings(op[2]["params"]))
        if form == "set_formula":
            return "%s.set_formula(%r)" % (P(op[1]), formula_src(op[2]))
        return "%s.formula = %r" % (P(op[1]), formula_src(op[2]))
    if k == "set_prop":
        return "%s.%s = %r" % (P(op[1]), op[2], op[3])
    if k == "set_input":
        return "%s[%r] = %r" % (P(op[1]), op[2], op[3])
    if k == "clear_model":
        return "%s.clear_all()" % mvar
    if k == "clear_space":
        return "%s.clear_all()" % P(op[1])
    if k == "clear_cells":
        return "%s.clear()" % P(op[1])
    if k == "clear_at":
        return "%s.clear_at(%s)" % (P(op[1]), ", ".join(map(repr, op[2])))
    if k == "clear_items":
        return "%s.clear_items()" % P(op[1])
    if k == "del_item":
        return "del %s" % P(tuple(op[1]) + (tuple(op[2]),))
    if k == "touch_item":
        return P(op[1])
    raise AssertionError(op)


SCRIPT_HEAD = '''import sys, warnings
import modelx as mx
from modelx.core.errors import DeletedObjectError
warnings.simplefilter("ignore")
def val(f):
    try: return ("v", f())
    except DeletedObjectError: return ("deleted",)
    except Exception: return ("exc",)
'''


# ---------------------------------------------------------------------------------------------- parallel runner

def run_jobs(res, jobs, worker, nproc=None, chunksize=1):
    """run worker(job) -> list of records over a fork pool; records are merged in job order.
    record = dict(key=..., nontrivial=bool, fail=None|dict(tags, what, script, case), sample=None|obj)"""
    import multiprocessing as mp, os
    nproc = nproc or min(14, os.cpu_count() or 1)
    complete = True
    deadline = res.t0 + res.budget_s * 0.92      # leave room for the jobs in flight and for writing the result
    if nproc <= 1 or len(jobs) <= 1:
        it = map(worker, jobs)
        pool = None
    else:
        pool = mp.get_context("fork").Pool(nproc)
        it = pool.imap(worker, jobs, chunksize)
    try:
        for recs in it:
            for r in recs:
                res.count(r["key"], r.get("nontrivial", True))
                if r.get("fail"):
                    res.fail(**r["fail"])
                for f in r.get("more_fails", ()):        # further symptoms of the same case (other tag sets)
                    res.fail(**f)
                if r.get("sample") is not None:
                    res.sample(r["sample"])
                for mname, ok in r.get("monitors", ()):
                    res.monitor(mname, ok)
                for nt in r.get("notes", ()):
                    if nt not in res.notes and len(res.notes) < 12:
                        res.notes.append(nt)
            if time.time() > deadline:
                complete = False
                break
    finally:
        if pool is not None:
            pool.terminate()
            pool.join()
    return complete


# ---------------------------------------------------------------------------------------------- exceptions

def raised_inside_modelx(exc):
    """True when the innermost frame of the exception's traceback is modelx code (an unexpected exception from
    the library where the property says the operation succeeds = a violation; anything else = a driver fault)"""
    import traceback as _tb, os as _os
    frames = _tb.extract_tb(exc.__traceback__)
    if not frames:
        return False
    root = _os.path.realpath(_os.path.dirname(mx.__file__))
    return _os.path.realpath(frames[-1].filename).startswith(root)


def guarded(fn, rec_key, tags, what_prefix):
    """run fn() -> record; an exception escaping from inside modelx becomes a failing record"""
    import traceback as _tb
    try:
        return fn()
    except Exception as e:
        if not raised_inside_modelx(e):
            raise
        last = _tb.extract_tb(e.__traceback__)[-1]
        return {"key": rec_key, "nontrivial": True,
                "fail": dict(tags=tuple(tags) + ("unexpected-exception", type(e).__name__),
                             what="%s: %s: %s (at %s:%d %s)" % (what_prefix, type(e).__name__, e,
                                                               last.filename.split("/modelx/")[-1], last.lineno, last.name),
                             script=None, case=rec_key)}
