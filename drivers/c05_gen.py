"""Model generator + independent evaluator shared by the C05 and C17 bounded drivers.

A *spec* is a small dependency DAG of modelx elements.  Node j (0 <= j < n) depends on a list of
earlier nodes; its formula is generated as text from a tiny statement program

    K          acc = _space.k<j>              (attribute-path reference read -> System.refstack entry)
    FAIL       raise / return None / exceed the recursion limit, optionally guarded by `if _space.f<j>:`
    CALL d     acc += <call of node d>        (plain / comprehension / generator / lambda / subscript,
                                               optionally wrapped in try/except = a *handled* failure)
    RET        return acc

so the generator knows, for every statement, the line of the formula on which it sits, and the
evaluator `Sim` (a plain Python interpreter of the same programs, with an explicit stack and an explicit
"held values" map) can predict without modelx: the outcome of a top-level call, the chain of elements
executing when the exception escaped (with lines), the elements completed before the failure and the
value every element has under the current definitions.

Node kinds (where the element lives / what it is):
    S scalar cached cells in Main          P cached cells with a parameter (called with 1)
    U uncached scalar cells                V uncached cells with a parameter
    L cached cells defined by a lambda     D cells derived from a base space (defined in Base, Main(Base))
    O cells in a sibling space Oth         K cells in the child space Main.Kid
    I cells of the ItemSpace Itm[1]        Z the ItemSpace Zsp<j>[1] itself (its space formula is the node)

Every modelx operation goes through `Rec`, which executes the statement *and* records its text, so the
replay script of a failure is exactly the program that ran, followed by the violated check.
"""
import sys

PRELUDE = '''\
import os, sys, io, contextlib, warnings
warnings.filterwarnings("ignore")
_r = os.environ.get("MODELX_VERIF_REPO")
if _r and _r != "/repo":
    sys.path.insert(0, _r)
import modelx as mx
from modelx.core.errors import FormulaError, DeepReferenceError, NoneReturnedError
class Boom(BaseException):
    pass
RAISED = []
def _boom(j):
    e = Boom(j); RAISED.append(e); raise e
def _zde():
    return 1 // 0
def _key(k):
    return k if isinstance(k, tuple) else (k,)
def held(cells):
    return {_key(k): v for k, v in dict(cells).items()}
def call(f):
    try:
        with contextlib.redirect_stderr(io.StringIO()):
            return ("ok", f())
    except BaseException as e:
        return ("err", e)
'''

EXIT_CLASS = '''\
class _Exit:
    def __init__(self, f):
        self.f = f
    def __enter__(self):
        return self
    def __exit__(self, *a):
        self.f()
        return False
'''

BIG_LIMIT = 100000
DEEP_ARG = 40
FALLBACK = -7

KIND_INFO = {
    #      home    param  cached lam
    "S": ("Main", False, True, False),
    "P": ("Main", True, True, False),
    "U": ("Main", False, False, False),
    "V": ("Main", True, False, False),
    "L": ("Main", False, True, True),
    "D": ("Main", False, True, False),
    "O": ("Oth", False, True, False),
    "K": ("Kid", False, True, False),
    "I": ("Itm", False, True, False),
    "Z": (None, False, True, False),
}

EXC_CLASS = {"zde": "ZeroDivisionError", "boom": "Boom", "none": "NoneReturnedError",
             "depth": "DeepReferenceError", "kbi": "KeyboardInterrupt", "stop": "StopIteration",
             "badret": "ValueError", "badrefs": None}     # None: whatever modelx raises for it
HANDLER_CLASS = {"zde": "ZeroDivisionError", "boom": "Boom", "exc": "Exception", "base": "BaseException"}
# which simulated exception kinds a handler class catches
HANDLES = {"zde": {"zde"}, "boom": {"boom"}, "exc": {"zde", "none", "depth", "stop", "badret", "badrefs"},
           "base": {"zde", "none", "depth", "boom", "kbi", "stop", "badret", "badrefs"}}


class Dep:
    __slots__ = ("d", "style", "handled", "inflight")

    def __init__(self, d, style="plain", handled=None, inflight=None):
        self.d, self.style, self.handled = d, style, handled
        self.inflight = inflight        # None | Inflight: another element is evaluated while the callee's failure propagates

    def key(self):
        if self.inflight is None:
            return (self.d, self.style, self.handled)
        return (self.d, self.style, self.handled, self.inflight.key())


class Inflight:
    """The call is wrapped so that the formula evaluates a *side* element while the callee's exception is still
    propagating, and then lets the same exception go on:

        finally      try: CALL / finally: SIDE                      (SIDE also runs when CALL succeeds)
        reraise      try: CALL / except H: SIDE; raise
        reraise-as   try: CALL / except H as _e: SIDE; raise _e
        with         with _Exit(lambda: SIDE): CALL                 (SIDE runs in __exit__, also when CALL succeeds)

    and forms in which a failure of SIDE is swallowed inside the handler, so that the ORIGINAL exception goes on
    (SWALLOW_FORMS; never drawn unless asked for by name):

        swallow-in-except    try: CALL / except H: try: SIDE / except Exception: pass // raise
        swallow-in-finally   try: CALL / finally: try: SIDE / except Exception: pass

    side = index of an earlier node, or ("note", a) = the helper cells Main.note(a), or ("oops", a) = the helper
    cells Main.oops(a) whose formula always raises ZeroDivisionError (swallow forms only); hcls = handler class of
    the except forms (the side is evaluated only if it catches the exception in flight)."""
    __slots__ = ("form", "side", "style", "hcls")
    FORMS = ("finally", "reraise", "reraise-as", "with")
    SWALLOW_FORMS = ("swallow-in-except", "swallow-in-finally")
    ALL_FORMS = FORMS + SWALLOW_FORMS
    SWALLOWS = "exc"        # class caught by the inner handler of the swallow forms (key of HANDLES)

    def __init__(self, form, side, style="plain", hcls=None):
        self.form, self.side, self.style, self.hcls = form, side, style, hcls

    def key(self):
        return (self.form, self.side, self.style, self.hcls)

    def triggered_by(self, kind):
        return self.form in ("finally", "with", "swallow-in-finally") or kind in HANDLES[self.hcls]

    @property
    def swallows(self):
        return self.form in self.SWALLOW_FORMS

    @property
    def runs_on_success(self):
        return self.form in ("finally", "with", "swallow-in-finally")


class Fail:
    __slots__ = ("kind", "when", "site", "cond")

    def __init__(self, kind, when=0, site="direct", cond=False):
        self.kind, self.when, self.site, self.cond = kind, when, site, cond

    def key(self):
        return (self.kind, self.when, self.site, self.cond)


class Node:
    def __init__(self, j, kind="S", deps=(), fail=None, allow=None):
        self.j, self.kind, self.deps, self.fail, self.allow = j, kind, list(deps), fail, allow

    @property
    def home(self):
        return "Zsp%d" % self.j if self.kind == "Z" else KIND_INFO[self.kind][0]

    @property
    def param(self):
        return KIND_INFO[self.kind][1]

    @property
    def cached(self):
        return KIND_INFO[self.kind][2]

    @property
    def lam(self):
        return KIND_INFO[self.kind][3]

    def key(self):
        return (self.j, self.kind, tuple(d.key() for d in self.deps),
                self.fail.key() if self.fail else None, self.allow)


class Spec:
    """Current definitions of the generated model (mutated by the edits of a history)."""

    def __init__(self, nodes, space_allow=None, model_allow=False, deep_cached=True, pad=False, lam_multi=False):
        self.pad = pad                  # blank + comment lines after the def line (line arithmetic)
        self.lam_multi = lam_multi      # lambda formulas spread over several lines
        self.nodes = nodes
        self.n = len(nodes)
        self.space_allow = dict(space_allow or {})      # home -> None/True/False
        self.model_allow = model_allow
        self.flags = {nd.j: 0 for nd in nodes}
        self.inputs = {}                                 # j -> value assigned by the user
        self.limit_small = None                          # None = default limit, else the small limit
        self.deep_cached = deep_cached
        self._render = {}

    def key(self):
        return (tuple(nd.key() for nd in self.nodes), tuple(sorted(self.space_allow.items(), key=repr)),
                self.model_allow, self.deep_cached, self.pad, self.lam_multi)

    def k(self, j):
        return 3 ** j

    def homes(self):
        hs = ["Main"]
        for nd in self.nodes:
            if nd.home not in hs:
                hs.append(nd.home)
        return hs

    def allow_none(self, j):
        nd = self.nodes[j]
        if nd.allow is not None:
            return nd.allow
        chain = {"Main": ["Main"], "Oth": ["Oth"], "Kid": ["Kid", "Main"], "Itm": ["Itm"]}.get(nd.home, [])
        for h in chain:
            v = self.space_allow.get(h)
            if v is not None:
                return v
        return self.model_allow

    # ------------------------------------------------------------------ programs
    def prog(self, j):
        """Statement program of node j: list of dicts with op in K / FAIL / CALL / RET."""
        nd = self.nodes[j]
        f = nd.fail
        out = []
        if nd.lam and f is not None and f.kind == "none":
            return [{"op": "FAIL", "fail": f}]
        out.append({"op": "K"})
        for i, dep in enumerate(nd.deps):
            if f is not None and f.when == i:
                out.append({"op": "FAIL", "fail": f})
            out.append({"op": "CALL", "dep": dep})
        if f is not None and f.when >= len(nd.deps):
            out.append({"op": "FAIL", "fail": f})
        out.append({"op": "RET"})
        return out

    def call_expr(self, j, dep):
        nd, td = self.nodes[j], self.nodes[dep.d]
        home = nd.home
        if td.kind == "Z":
            return "Zsp%d[1].v" % td.j
        if td.home == "Main":
            pre = "" if home == "Main" else "Main."
        elif td.home == "Oth":
            pre = "" if home == "Oth" else "Oth."
        elif td.home == "Kid":
            pre = "" if home == "Kid" else ("Kid." if home == "Main" else "Main.Kid.")
        else:
            pre = "" if home == "Itm" else "Itm[1]."
        if td.param:
            a = "x" if nd.param else "1"
            # (a cells name inside its own space's formulas is bound to a plain callable: no subscripting)
            args = "[%s]" % a if (dep.style == "sub" and pre) else "(%s)" % a
        else:
            args = "()"
        return "%sc%d%s" % (pre, td.j, args)

    def uses_inflight(self):
        return any(dep.inflight is not None for nd in self.nodes for dep in nd.deps)

    def uses_oops(self):
        return any(dep.inflight is not None and not isinstance(dep.inflight.side, int)
                   and dep.inflight.side[0] == "oops" for nd in self.nodes for dep in nd.deps)

    def side_expr(self, j, inf):
        """Source of the side evaluation of an Inflight wrapper inside node j's formula."""
        if isinstance(inf.side, int):
            e = self.call_expr(j, Dep(inf.side))
        else:
            e = ("" if self.nodes[j].home == "Main" else "Main.") + "%s(%d)" % inf.side
        return self._wrap_call(e, inf.style)

    @staticmethod
    def oops_label(a):
        return ("M.Main.oops", (a,))

    @staticmethod
    def note_label(a):
        return ("M.Main.note", (a,))

    def deep_expr(self, j):
        name = "deep" if self.deep_cached else "deepu"
        return ("" if self.nodes[j].home == "Main" else "Main.") + "%s(%d)" % (name, DEEP_ARG)

    def render(self, j):
        """-> (formula text, program with 'line' filled in = the line the formula's own frame shows)."""
        ck = (self.nodes[j].key(), self.deep_cached, self.pad, self.lam_multi,
              tuple((nd.j, nd.kind) for nd in self.nodes))
        r = self._render.get(ck)
        if r is None:
            r = self._render[ck] = self._render_nocache(j)
        return r

    def _render_nocache(self, j):
        nd = self.nodes[j]
        prog = self.prog(j)
        if nd.lam:
            terms = []
            for st in prog:
                st["line"] = 1
                if st["op"] == "K":
                    terms.append("_space.k%d" % j)
                elif st["op"] == "CALL":
                    terms.append(self._wrap_call(self.call_expr(j, st["dep"]), st["dep"].style))
                elif st["op"] == "FAIL":
                    f = st["fail"]
                    if f.kind == "none":
                        return "lambda: None", prog
                    t = {"zde": "1 // 0", "boom": "_boom(%d)" % j, "depth": self.deep_expr(j),
                         "kbi": "_boom(%d)" % j, "stop": "_boom(%d)" % j}[f.kind]
                    if f.cond:
                        t = "(%s if _space.f%d else 0)" % (t, j)
                    terms.append(t)
            if self.lam_multi and len(terms) > 1:
                k = 0
                for st in prog:
                    if st["op"] in ("K", "CALL", "FAIL"):
                        k += 1
                        st["line"] = k
                return "lambda: (" + " +\n    ".join(terms) + ")", prog
            return "lambda: " + " + ".join(terms), prog
        head = "def %s(%s):" % ("_formula" if nd.kind == "Z" else "c%d" % j,
                                "k" if nd.kind == "Z" else ("x" if nd.param else ""))
        lines = [head]
        if self.pad:
            lines += ["", "    # padding"]

        def emit(text):
            lines.append(text)
            return len(lines)

        for st in prog:
            op = st["op"]
            if op == "K":
                st["line"] = emit("    acc = _space.k%d" % j)
            elif op == "RET":
                st["line"] = emit("    return {'refs': {'v': acc}}" if nd.kind == "Z" else "    return acc")
            elif op == "CALL":
                dep = st["dep"]
                e = self._wrap_call(self.call_expr(j, dep), dep.style)
                if dep.inflight is not None:
                    inf = dep.inflight
                    se = self.side_expr(j, inf)
                    if inf.form == "with":
                        st["side_line"] = emit("    with _Exit(lambda: %s):" % se)
                        st["line"] = emit("        acc += " + e)
                    else:
                        emit("    try:")
                        st["line"] = emit("        acc += " + e)
                        if inf.form == "finally":
                            emit("    finally:")
                            st["side_line"] = emit("        " + se)
                        elif inf.form == "reraise":
                            emit("    except %s:" % HANDLER_CLASS[inf.hcls])
                            st["side_line"] = emit("        " + se)
                            emit("        raise")
                        elif inf.form == "swallow-in-finally":
                            emit("    finally:")
                            emit("        try:")
                            st["side_line"] = emit("            " + se)
                            emit("        except %s:" % HANDLER_CLASS[inf.SWALLOWS])
                            emit("            pass")
                        elif inf.form == "swallow-in-except":
                            emit("    except %s:" % HANDLER_CLASS[inf.hcls])
                            emit("        try:")
                            st["side_line"] = emit("            " + se)
                            emit("        except %s:" % HANDLER_CLASS[inf.SWALLOWS])
                            emit("            pass")
                            emit("        raise")
                        else:
                            emit("    except %s as _e:" % HANDLER_CLASS[inf.hcls])
                            st["side_line"] = emit("        " + se)
                            emit("        raise _e")
                elif dep.handled:
                    emit("    try:")
                    st["line"] = emit("        acc += " + e)
                    emit("    except %s:" % HANDLER_CLASS[dep.handled])
                    emit("        acc += %d" % FALLBACK)
                elif dep.style == "multi":
                    emit("    acc += (0 +")
                    st["line"] = emit("            " + e + ")")
                else:
                    st["line"] = emit("    acc += " + e)
            else:
                f = st["fail"]
                ind = "    "
                if f.cond:
                    emit("    if _space.f%d:" % j)
                    ind = "        "
                st["line"] = self._emit_fail(emit, ind, f, j)
        return "\n".join(lines), prog

    @staticmethod
    def _wrap_call(e, style):
        if style == "comp":
            return "sum([%s for _ in (0,)])" % e
        if style == "gen":
            return "sum(%s for _ in (0,))" % e
        if style == "lam":
            return "(lambda: %s)()" % e
        return e

    def _emit_fail(self, emit, ind, f, j):
        k, site = f.kind, f.site
        if k == "none":
            return emit(ind + "return None")
        if k == "badret":           # a space formula must return a dict or None
            return emit(ind + "return 5")
        if k == "badrefs":          # ... whose 'refs' is a dict
            return emit(ind + "return {'refs': 5}")
        if k == "depth":
            return emit(ind + "acc += " + self.deep_expr(j))
        if k == "zde":
            if site == "comp":
                return emit(ind + "acc += sum([1 // 0 for _ in (0,)])")
            if site == "gen":
                return emit(ind + "acc += sum(1 // 0 for _ in (0,))")
            if site == "nested":
                emit(ind + "def _in():")
                emit(ind + "    return 1 // 0")
                return emit(ind + "acc += _in()")
            if site == "helper":
                return emit(ind + "acc += _zde()")
            return emit(ind + "acc += 1 // 0")
        if k == "boom":
            if site == "comp":
                return emit(ind + "acc += sum([_boom(%d) for _ in (0,)])" % j)
            if site == "gen":
                return emit(ind + "acc += sum(_boom(%d) for _ in (0,))" % j)
            if site == "nested":
                emit(ind + "def _in():")
                emit(ind + "    raise Boom(%d)" % j)
                return emit(ind + "_in()")
            if site == "helper":
                return emit(ind + "_boom(%d)" % j)
            return emit(ind + "raise Boom(%d)" % j)
        if k == "kbi":
            return emit(ind + "raise KeyboardInterrupt(%d)" % j)
        if k == "stop":
            return emit(ind + "raise StopIteration(%d)" % j)
        raise ValueError(k)

    # ------------------------------------------------------------------ expressions used from the top level
    def def_expr(self, j):
        nd = self.nodes[j]
        if nd.kind == "Z":
            return "Zsp%d" % j
        if nd.kind == "D":
            return "Base.c%d" % j
        if nd.kind == "K":
            return "Kid.c%d" % j
        return "%s.c%d" % (nd.home, j)

    def top_expr(self, j, style="call"):
        nd = self.nodes[j]
        if nd.kind == "Z":
            return "Zsp%d[1].v" % j
        if nd.kind == "I":
            return "Itm[1].c%d()" % j
        base = {"Main": "Main", "Oth": "Oth", "Kid": "Main.Kid"}[nd.home] + ".c%d" % j
        if nd.param:
            return base + ("[1]" if style == "sub" else "(1)")
        return base + "()"

    def label(self, j):
        """Expected repr-independent identity of element j: (fullname of its object, args)."""
        nd = self.nodes[j]
        if nd.kind == "Z":
            return ("M.Zsp%d" % j, (1,))
        if nd.kind == "I":
            return ("M.Itm[1].c%d" % j, ())
        pre = {"Main": "M.Main", "Oth": "M.Oth", "Kid": "M.Main.Kid"}[nd.home]
        return (pre + ".c%d" % j, (1,) if nd.param else ())

    def deep_label(self, x):
        return ("M.Main.%s" % ("deep" if self.deep_cached else "deepu"), (x,))

    ITM_LABEL = ("M.Itm", (1,))


# ====================================================================== building on the real modelx

class Rec:
    """Executes statements on the real modelx and keeps their text (= the replay script)."""

    def __init__(self):
        self.lines = [PRELUDE]
        self.ns = {}
        exec(PRELUDE, self.ns)

    def do(self, stmt):
        self.lines.append(stmt)
        exec(stmt, self.ns)

    def ev(self, expr):
        return eval(expr, self.ns)

    def call(self, expr):
        """Top-level evaluation that may fail; -> ('ok', value) | ('err', exception)."""
        self.lines.append("_r = call(lambda: %s)" % expr)
        exec(self.lines[-1], self.ns)
        return self.ns["_r"]

    def script(self, check):
        return "\n".join(self.lines + [check]) + "\n"


def build(spec, rec):
    """Create the model of `spec` (definitions only, nothing evaluated)."""
    homes = spec.homes()
    kinds = {nd.kind for nd in spec.nodes}
    rec.do('m = mx.new_model("M")')
    if "D" in kinds:
        rec.do('Base = m.new_space("Base")')
        rec.do('Main = m.new_space("Main", bases=Base)')
    else:
        rec.do('Main = m.new_space("Main")')
    if "Oth" in homes:
        rec.do('Oth = m.new_space("Oth")')
    if "Kid" in homes:
        rec.do('Kid = Main.new_space("Kid")')
    if "Itm" in homes:
        rec.do('Itm = m.new_space("Itm", formula="lambda k: None")')
    rec.do("m.Boom = Boom; m._boom = _boom; m._zde = _zde")
    for nd in spec.nodes:
        if nd.kind == "Z":
            rec.do('Zsp%d = m.new_space("Zsp%d", formula=%r)' % (nd.j, nd.j, spec.render(nd.j)[0]))
    tops = [h for h in homes if h != "Kid"]
    for h in homes:
        for t in tops:
            if t != h and not (h == "Main" and t == "Kid"):
                rec.do("%s.%s = %s" % (h, t, t))
    # helper chain for the recursion-limit failures
    rec.do('Main.new_cells("deep", formula="def deep(x):\\n    return deep(x - 1) + 1 if x > 0 else 0")')
    rec.do('Main.new_cells("deepu", formula="def deepu(x):\\n    return deepu(x - 1) + 1 if x > 0 else 0")')
    rec.do("Main.deepu.is_cached = False")
    if spec.uses_inflight():
        rec.do('Main.new_cells("note", formula="lambda x: x")')
        rec.do(EXIT_CLASS)
        rec.do("m._Exit = _Exit")
    if spec.uses_oops():
        rec.do('Main.new_cells("oops", formula="lambda x: 1 // 0")')
    if spec.model_allow:
        rec.do("m.allow_none = True")
    for h, v in spec.space_allow.items():
        if v is not None and h in homes:
            rec.do("%s.allow_none = %r" % (h, v))
    for nd in spec.nodes:
        j = nd.j
        text, _ = spec.render(j)
        if nd.kind == "Z":
            refhome = "Zsp%d" % j
        else:
            holder = "Base" if nd.kind == "D" else nd.home
            rec.do('%s.new_cells("c%d", formula=%r)' % (holder, j, text))
            if not nd.cached:
                rec.do("%s.is_cached = False" % spec.def_expr(j))
            if nd.allow is not None:
                rec.do("%s.allow_none = %r" % (spec.def_expr(j), nd.allow))
            refhome = nd.home
        rec.do("%s.k%d = %d" % (refhome, j, spec.k(j)))
        rec.do("%s.f%d = %d" % (refhome, j, spec.flags[j]))


def observe(spec, rec):
    """Values held right now: {j: value} for cached elements, plus the deep helper's keys."""
    ns = rec.ns
    heldf = ns["held"]
    out = {}
    itm = None
    if "Itm" in ns:
        itm = ns["Itm"].itemspaces.get(1)
    for nd in spec.nodes:
        j = nd.j
        if nd.kind == "Z":
            it = ns["Zsp%d" % j].itemspaces.get(1)
            if it is not None:
                out[j] = it.v
        elif nd.kind == "I":
            if itm is not None:
                d = heldf(itm.cells["c%d" % j])
                if d:
                    out[j] = d[()]
        else:
            sp = {"Main": "Main", "Oth": "Oth", "Kid": "Kid"}[nd.home]
            d = heldf(ns[sp].cells["c%d" % j])
            if d:
                (kk, vv), = d.items()
                out[j] = vv
    deep = {k[0] for k in heldf(ns["Main"].cells["deep"])}
    return out, deep, (itm is not None)


def observe_notes(spec, rec):
    """Arguments for which the helper cells Main.note holds a value (models with Inflight wrappers only)."""
    if not spec.uses_inflight():
        return set()
    return {k[0] for k in rec.ns["held"](rec.ns["Main"].cells["note"])}


# ====================================================================== the independent evaluator

class SimExc(Exception):
    def __init__(self, kind, origin):
        self.kind, self.origin = kind, origin
        self.chain = None            # [(label, line or None)] outermost first
        self.boom_index = None


class Sim:
    """Interprets the statement programs of `spec`; `held` is the set of values held before the call."""

    def __init__(self, spec, held=None, deep_held=(), itm_exists=False, limit=None):
        self.spec = spec
        self.held = dict(held or {})
        self.deep_held = set(deep_held)
        self.itm_exists = itm_exists
        self.limit = limit
        self.stack = []              # [[label, line]]
        self.completed = []          # node indices completed during this run, in order
        self.handled_unwinds = []    # (labels unwound by an exception that a formula handled, open-ended?)
        self.boom_raised = 0         # exceptions raised through the _boom() helper so far (they are listed in RAISED)
        self.note_held = set()       # arguments of Main.note held before the call (Inflight wrappers)
        self.inflight_evals = []     # (form, side was really evaluated?, side completed normally? True | False |
                                     #  "swallowed" = failed, the wrapper handled that itself) while an exception propagated

    def top(self, j):
        try:
            return ("ok", self._call(j, None))
        except SimExc as e:
            return ("err", e)

    # -- helpers
    def _raise(self, kind, origin):
        e = SimExc(kind, origin)
        nd = self.spec.nodes[origin]
        if kind == "boom" and (nd.lam or nd.fail.site in ("comp", "gen", "helper")):
            e.boom_index = self.boom_raised       # raised through _boom(): its position in RAISED, counted from the call
            self.boom_raised += 1
        e.chain = [(lab, ln) for lab, ln in self.stack]
        raise e

    def _deep(self, caller):
        sp = self.spec
        if sp.deep_cached and DEEP_ARG in self.deep_held:
            return DEEP_ARG
        if self.limit is not None:
            # the chain certainly exceeds the small limit: every deep(x) frame sits on its line 2
            x = DEEP_ARG
            e = SimExc("depth", caller)
            chain = [(lab, ln) for lab, ln in self.stack]
            while x >= 0:
                chain.append((sp.deep_label(x), 2))
                x -= 1
            e.chain = chain
            e.open_ended = len(self.stack)      # chain is cut somewhere in the deep part
            raise e
        if sp.deep_cached:
            self.deep_held |= set(range(DEEP_ARG + 1))
        return DEEP_ARG

    def _side(self, inf, caller, in_flight):
        """The side evaluation of an Inflight wrapper in `caller`'s formula (value discarded)."""
        sp = self.spec
        if isinstance(inf.side, int):
            nd = sp.nodes[inf.side]
            evaluated = not (nd.cached and (inf.side in self.held or inf.side in sp.inputs))
        elif inf.side[0] == "oops":
            evaluated = True
        else:
            evaluated = inf.side[1] not in self.note_held
        try:
            if isinstance(inf.side, int):
                self._call(inf.side, caller)
            elif inf.side[0] == "oops":
                # the helper always raises ZeroDivisionError (never held); the swallow forms always catch it
                self.stack.append([sp.oops_label(inf.side[1]), 1])
                x = SimExc("zde", caller)
                x.chain = [(lab, ln) for lab, ln in self.stack]
                self.stack.pop()
                raise x
            elif evaluated:
                self.stack.append([sp.note_label(inf.side[1]), 1])
                self.stack.pop()
                self.note_held.add(inf.side[1])
        except SimExc:
            if in_flight:
                self.inflight_evals.append((inf.form, evaluated, False))
            raise
        if in_flight:
            self.inflight_evals.append((inf.form, evaluated, True))

    def _call(self, j, caller):
        sp = self.spec
        nd = sp.nodes[j]
        if nd.kind == "I" and (caller is None or sp.nodes[caller].home != "Itm"):
            self.itm_exists = True
        if nd.cached and j in self.held:
            return self.held[j]
        if j in sp.inputs and nd.cached:       # (inputs are held; kept for the cache-less evaluator)
            return sp.inputs[j]
        self.stack.append([sp.label(j), None])
        fr = self.stack[-1]
        try:
            _, prog = sp.render(j)
            acc = 0
            for st in prog:
                fr[1] = st["line"]
                op = st["op"]
                if op == "K":
                    acc = sp.k(j)
                elif op == "CALL":
                    dep = st["dep"]
                    inf = dep.inflight
                    try:
                        acc += self._call(dep.d, j)
                    except SimExc as e:
                        if inf is not None and inf.triggered_by(e.kind):
                            # the formula evaluates the side element while e propagates, then lets e go on
                            fr[1] = st["side_line"]
                            try:
                                self._side(inf, j, True)
                            except SimExc as e2:
                                if inf.swallows and e2.kind in HANDLES[inf.SWALLOWS]:
                                    # the formula handles the side's failure right there and lets e go on: the
                                    # elements unwound by the side's exception are history, e's chain is unchanged
                                    self.handled_unwinds.append(([lab for lab, _ in e2.chain[len(self.stack):]],
                                                                 getattr(e2, "open_ended", None) is not None))
                                    self.inflight_evals[-1] = self.inflight_evals[-1][:2] + ("swallowed",)
                                    raise e
                                # the side failed: its exception replaces e, whose unwound elements are history
                                self.handled_unwinds.append(([lab for lab, _ in e.chain[len(self.stack):]],
                                                             getattr(e, "open_ended", None) is not None))
                                raise
                            fr[1] = st["line"]
                            if inf.form == "reraise-as":
                                # `raise _e` adds a second traceback entry for this frame: which of the two lines
                                # is "where the error occurred" is not said by the statement -> no line expected
                                i = len(self.stack) - 1
                                e.chain[i] = (e.chain[i][0], None)
                            raise e
                        if dep.handled and e.kind in HANDLES[dep.handled]:
                            # the formula handles it: the elements below this frame were unwound
                            self.handled_unwinds.append(([lab for lab, _ in e.chain[len(self.stack):]],
                                                         getattr(e, "open_ended", None) is not None))
                            acc += FALLBACK
                        else:
                            raise
                    else:
                        if inf is not None and inf.runs_on_success:
                            fr[1] = st["side_line"]
                            try:
                                self._side(inf, j, False)
                            except SimExc as e2:
                                if not (inf.swallows and e2.kind in HANDLES[inf.SWALLOWS]):
                                    raise
                                self.handled_unwinds.append(([lab for lab, _ in e2.chain[len(self.stack):]],
                                                             getattr(e2, "open_ended", None) is not None))
                elif op == "FAIL":
                    f = st["fail"]
                    if f.cond and not sp.flags[j]:
                        continue
                    if f.kind == "none":
                        if sp.allow_none(j):
                            acc = None
                            break
                        fr[1] = None
                        self._raise("none", j)
                    elif f.kind in ("badret", "badrefs"):
                        fr[1] = None        # raised by modelx after the space formula returned
                        self._raise(f.kind, j)
                    elif f.kind == "depth":
                        acc += self._deep(j)
                    else:
                        self._raise(f.kind, j)
                else:
                    break
        except SimExc:
            self.stack.pop()
            raise
        self.stack.pop()
        if nd.cached:
            self.held[j] = acc
        self.completed.append(j)
        return acc


def pure_value(spec, j, limit="current"):
    """Value of element j under the current definitions with no cache at all: ('ok', v) | ('err', kind, origin)."""
    s = Sim(spec, {}, (), False, spec.limit_small if limit == "current" else limit)
    r = s.top(j)
    if r[0] == "ok":
        return ("ok", r[1])
    return ("err", r[1].kind, r[1].origin)


# ====================================================================== models with failures that formulas handle

G_KIND_POOL = "SSPPUVLDOKIZ"
G_STYLES = ["plain", "plain", "comp", "gen", "lam", "sub", "multi"]
G_SITES = {"zde": ["direct", "comp", "gen", "nested", "helper"], "boom": ["direct", "comp", "gen", "nested", "helper"],
           "none": ["direct"], "depth": ["direct"], "kbi": ["direct"], "badret": ["direct"], "badrefs": ["direct"]}
G_MAIN_KINDS = ["zde", "boom", "none", "depth"]
HANDLER_FOR = {"zde": ["zde", "exc", "base"], "boom": ["boom", "base"], "none": ["exc", "base"],
               "depth": ["exc", "base"], "kbi": ["base"], "badret": ["exc", "base"], "badrefs": ["exc", "base"]}
NONHANDLER_FOR = {"zde": ["boom"], "boom": ["zde", "exc"], "none": ["zde", "boom"], "depth": ["zde", "boom"],
                  "kbi": ["exc", "zde"], "badret": ["zde", "boom"], "badrefs": ["zde", "boom"]}


def legal_pair(kind, fkind, rnd=None):
    """(element kind, failure kind) that exist: an uncached cells may return None, only a space formula can
    return a bad value, a lambda cannot contain a raise statement."""
    if fkind == "none" and kind == "Z":
        fkind = "badret"
    if fkind == "badret" and kind == "Z" and rnd is not None and rnd.random() < 0.4:
        fkind = "badrefs"
    if fkind == "none" and kind in "UV":
        kind = "S"
    if fkind in ("badret", "badrefs") and kind != "Z":
        fkind = "zde"
    if fkind == "kbi" and kind == "L":
        kind = "S"
    return kind, fkind


def make_handled_spec(n, deps, p, fkind, rnd, extra=False, escape=True):
    """DAG -> Spec in which element p raises `fkind` (escaping) and, usually, another element raises a failure
    that all / some of its callers handle with try/except.  -> (spec, small_limit, errmode, ph)"""
    kinds = [rnd.choice(G_KIND_POOL) for _ in range(n)]
    kinds[p], fkind = legal_pair(kinds[p], fkind, rnd)
    ph, hkind = None, None
    cands = [j for j in range(n) if j != p and any(j in deps[c] for c in range(n))]
    if not escape:
        # the only failing element is p and (nearly) every caller handles its failure
        ph, hkind = p, fkind
    elif cands and rnd.random() < 0.8:
        ph = rnd.choice(cands)
        hkind = rnd.choice(G_MAIN_KINDS + (["kbi"] if extra else []))
        kinds[ph], hkind = legal_pair(kinds[ph], hkind, rnd)
    handle_all = rnd.random() < (0.85 if not escape else 0.7)
    nodes = []
    for j in range(n):
        ds = list(deps[j])
        if rnd.random() < 0.3:
            ds.reverse()
        dl = []
        for d in ds:
            st = rnd.choice(G_STYLES)
            if st == "sub" and kinds[d] != "P":
                st = "plain"
            if kinds[j] == "L" and st == "multi":
                st = "plain"
            handled = None
            if kinds[j] != "L":
                if d == ph and (handle_all or rnd.random() < 0.5):
                    handled = rnd.choice(HANDLER_FOR[hkind])
                elif rnd.random() < 0.12:
                    # a handler that does not catch what passes through it
                    handled = rnd.choice(NONHANDLER_FOR[fkind])
                    if d == ph and handled in HANDLER_FOR[hkind]:
                        handled = None
            if handled and st in ("lam", "multi"):
                st = "plain"
            dl.append(Dep(d, st, handled))
        nodes.append(Node(j, kinds[j], dl))
    nodes[p].fail = Fail(fkind, rnd.randrange(len(nodes[p].deps) + 1), rnd.choice(G_SITES[fkind]))
    if ph is not None and ph != p:
        nodes[ph].fail = Fail(hkind, rnd.randrange(len(nodes[ph].deps) + 1), rnd.choice(G_SITES[hkind]))
    small = "depth" in (fkind, hkind)
    spec = Spec(nodes, deep_cached=rnd.random() < 0.7, pad=rnd.random() < 0.3, lam_multi=rnd.random() < 0.5)
    errmode = rnd.choice(["formula-error"] * 4 + ["original", "handled"])
    return spec, small, errmode, ph


# ====================================================================== elements evaluated while a failure propagates

def add_inflight(spec, rnd, form=None, placement="all"):
    """Wrap calls of `spec` in Inflight constructs (in place; -> number of wrapped calls).

    Every call that is not already wrapped in a handler, in a formula that can hold statements (not a lambda), is
    wrapped (placement 'all') or wrapped with probability 0.6 ('some'); form = one of Inflight.ALL_FORMS or None
    (drawn per call among Inflight.FORMS).  The side element is an earlier node other than the callee (any kind: it
    may be held already, be uncached, fail itself, handle failures itself) or - always when there is no such node, else half of the time -
    the helper cells Main.note with an argument used nowhere else (so it holds no value before the first evaluation
    after a clear_all)."""
    fails = {nd.fail.kind for nd in spec.nodes if nd.fail is not None}
    count = 0
    for nd in spec.nodes:
        if nd.lam:
            continue
        for i, dep in enumerate(nd.deps):
            if dep.handled or dep.inflight is not None:
                continue
            if placement != "all" and rnd.random() >= 0.6:
                continue
            f = form or rnd.choice(Inflight.FORMS)
            others = [s for s in range(nd.j) if s != dep.d]
            if others and rnd.random() < 0.5:
                side = rnd.choice(others)
            else:
                side = ("note", 10 * nd.j + i)
            if f in Inflight.SWALLOW_FORMS and (not isinstance(side, int) or rnd.random() < 0.4):
                # the side must fail for its failure to be swallowed: mostly the always-failing helper
                # (an earlier node may fail, succeed, be held, or fail with something the inner handler lets through)
                side = ("oops", 10 * nd.j + i)
            hcls = None
            if f in ("reraise", "reraise-as", "swallow-in-except"):
                kinds = sorted(fails) or ["zde"]
                fk = rnd.choice(kinds)
                hcls = rnd.choice(HANDLER_FOR[fk]) if rnd.random() < 0.85 else rnd.choice(NONHANDLER_FOR[fk])
            if dep.style in ("lam", "multi"):
                dep.style = "plain"
            dep.inflight = Inflight(f, side, rnd.choice(["plain", "plain", "comp", "lam"]), hcls)
            count += 1
    spec._render.clear()
    return count
