#!/bin/sh
# MANIFEST.setup_cmd: offline self-check of the tool chain; nothing is downloaded or built.
set -e
cd "$(dirname "$0")/.."
python3-vt -c "import z3, cvc5, networkx; print('z3', z3.get_version_string(), 'cvc5', cvc5.__version__)"
/venv/bin/python -c "import modelx, os; assert os.path.realpath(modelx.__file__).startswith('/repo/'), modelx.__file__; print('modelx', modelx.__version__, 'from', modelx.__file__)"
mkdir -p evidence replays
echo setup-ok
