#!/usr/bin/env python3
"""Run the repository's pinned test suite (guard OFF) and compare with /root/.vp/BASELINE.json.
usage: baseline.py [repo_dir] [-n N]   exit 0 iff every stable_pass test passed."""
import json, os, subprocess, sys, tempfile, xml.etree.ElementTree as ET
repo = "/repo"; n = None
args = sys.argv[1:]
while args:
    a = args.pop(0)
    if a == "-n": n = args.pop(0)
    else: repo = a
base = json.load(open("/root/.vp/BASELINE.json"))
want = set(base["stable_pass"])
fd, xml = tempfile.mkstemp(suffix=".xml"); os.close(fd)
cmd = ["/venv/bin/python", "-m", "pytest", "-ra", "-q", "-p", "no:cacheprovider", "--timeout=900",
       "--continue-on-collection-errors", "--junitxml=" + xml]
if n: cmd += ["-n", n]
env = dict(os.environ); env.pop("MODELX_VERIF", None)
p = subprocess.run(cmd, cwd=repo, env=env, stdout=subprocess.PIPE, stderr=subprocess.STDOUT, text=True)
passed = set()
for tc in ET.parse(xml).getroot().iter("testcase"):
    if not any(ch.tag in ("failure", "error", "skipped") for ch in tc):
        passed.add((tc.get("classname") + "::" + tc.get("name")).replace(os.path.realpath(repo), "/repo"))
os.unlink(xml)
missing = sorted(want - passed)
print(p.stdout.strip().splitlines()[-1])
print("stable_pass: %d, passed now: %d, missing: %d" % (len(want), len(passed & want), len(missing)))
for m in missing[:40]: print("  MISSING", m)
sys.exit(1 if missing else 0)
