"""for-loops (cut-point rule with invariants from the contract) and side-effect-free comprehensions."""
import ast
import z3
from .ty import *
from . import ty as T
from .engine import Exc, Unsupported
from .specev import SpecEval


def iter_source(E, it, st):
    """Evaluate the iterable of a for/comprehension.  yields (st, kind, payload) | (st, Exc)
       kind 'range'  payload (lo, hi, step:int)
            'seq'    payload (SeqT, seqvalue, mode) mode in {'plain','reversed','enumerate'}
            'zip'    payload [(SeqT, v), (SeqT, v)]
            'set'    payload (elemTy, membership array, wrap) wrap: None | ('items', dictSV) | ('values', dictSV)
    """
    if isinstance(it, ast.Call) and isinstance(it.func, ast.Name) and it.func.id == "range":
        for s1, vs in E.evs(it.args, st):
            if isinstance(vs, Exc): yield s1, vs, None; continue
            step = 1
            if len(vs) == 1: lo, hi = z3.IntVal(0), vs[0].v
            else: lo, hi = vs[0].v, vs[1].v
            if len(vs) == 3:
                step = E.static_int(vs[2])
                if step not in (1, -1): raise Unsupported("range step")
            yield s1, "range", (lo, hi, step)
        return
    if isinstance(it, ast.Call) and isinstance(it.func, ast.Name) and it.func.id in ("reversed", "enumerate") and len(it.args) == 1:
        for s1, kind, pl in iter_source(E, it.args[0], st):
            if isinstance(kind, Exc): yield s1, kind, None; continue
            if kind != "seq" or pl[2] != "plain": raise Unsupported("%s() of non-sequence" % it.func.id)
            yield s1, "seq", (pl[0], pl[1], it.func.id)
        return
    if isinstance(it, ast.Call) and isinstance(it.func, ast.Name) and it.func.id == "zip" and len(it.args) == 2:
        for s1, vs in E.evs(it.args, st):
            if isinstance(vs, Exc): yield s1, vs, None; continue
            yield s1, "zip", [E.seq_of(s1, v) for v in vs]
        return
    if isinstance(it, ast.Call) and isinstance(it.func, ast.Attribute) and it.func.attr in ("items", "values", "keys") and not it.args:
        for s1, d in E.ev(it.func.value, st):
            if isinstance(d, Exc): yield s1, d, None; continue
            ct = E.content_type(d)
            if not isinstance(ct, DictT): raise Unsupported(".%s() on %s" % (it.func.attr, d.ty))
            e, m = E.set_of(s1, d)
            if ct.ordered:
                sq, v = E.seq_of(s1, d)
                yield s1, "seq", (sq, v, "plain" if it.func.attr == "keys" else ("d" + it.func.attr, d))
            else:
                yield s1, "set", (e, m, None if it.func.attr == "keys" else (it.func.attr, d))
        return
    if isinstance(it, ast.Call) and isinstance(it.func, ast.Attribute) and it.func.attr in ("predecessors", "successors") and len(it.args) == 1:
        for s1, vs in E.evs([it.func.value, it.args[0]], st):
            if isinstance(vs, Exc): yield s1, vs, None; continue
            g, x = vs
            ct, ed = E.edges_of(s1, g)
            xv = E.coerce(x, ct.elem).v
            e_, nodes_ = E.set_of(s1, g)
            def mk(s, ct=ct, ed=ed, xv=xv):
                y = E.fresh("y", ct.elem.sort)
                arr = E.fresh("nbrs", z3.ArraySort(ct.elem.sort, B))
                s.pc.append(z3.ForAll([y], arr[y] == (ed[y][xv] if it.func.attr == "predecessors" else ed[xv][y])))
                return SV(arr, SetVT(ct.elem))
            for s2, r in E.fork_exc(s1, nodes_[xv], mk, "NetworkXError", it):
                if isinstance(r, Exc): yield s2, r, None
                else: yield s2, "set", (ct.elem, r.v, None)
        return
    if isinstance(it, ast.Attribute) and it.attr == "nodes":
        for s1, g in E.ev(it.value, st):
            if isinstance(g, Exc): yield s1, g, None; continue
            e, m = E.set_of(s1, g); yield s1, "set", (e, m, None)
        return
    for s1, v in E.ev(it, st):
        if isinstance(v, Exc): yield s1, v, None; continue
        if isinstance(v.ty, SetVT): yield s1, "set", (v.ty.elem, v.v, None); continue
        if isinstance(v.ty, TupT) and v.ty.items and all(t.sort == v.ty.items[0].sort for t in v.ty.items):
            sq = SeqT(v.ty.items[0]); sv = E.coerce(v, sq, s1)
            yield s1, "seq", (sq, sv.v, "plain"); continue
        ct = E.content_type(v) if v.ty.sort == Ref else None
        if isinstance(v.ty, RefT) and v.ty.cls == "CustomChainMap":
            # CustomChainMap.__iter__ (trusted model of its 4 lines): every key of the union of the maps, once
            maps = E.get_field(s1, v, "maps"); sq, mv = E.seq_of(s1, maps)
            dt = sq.elem
            k = E.fresh("k", dt.k.sort); j = E.fresh("j", I); U = E.fresh("chainkeys", z3.ArraySort(dt.k.sort, B))
            doms = s1.H(dt.dom_region, z3.ArraySort(dt.k.sort, B))
            s1.pc.append(z3.ForAll([k], U[k] == z3.Exists([j], z3.And(0 <= j, j < sq.len(mv), doms[sq.arr(mv)[j]][k]))))
            yield s1, "set", (dt.k, U, None); continue
        if isinstance(v.ty, SeqT) or isinstance(ct, ListT) or (isinstance(ct, DictT) and ct.ordered):
            sq, sv = E.seq_of(s1, v); yield s1, "seq", (sq, sv, "plain")
        elif isinstance(ct, (SetT, DictT, GraphT)):
            e, m = E.set_of(s1, v); yield s1, "set", (e, m, None)
        else:
            raise Unsupported("iteration over %s (line %s)" % (v.ty, it.lineno))


def for_loop(E, n, st):
    k, sp = E.loop_spec(n)
    names = E.assigned_names(n.body) | E.assigned_names([ast.Expr(value=n.target)])
    for s0, kind, pl in iter_source(E, n.iter, st):
        if isinstance(kind, Exc): yield s0, ("raise", kind); continue
        yield from run_loop(E, n, s0, k, sp, names, kind, pl)


def hidden_env(k, **kw):
    env = {}
    for nm, v in kw.items():
        env["_%s%d" % (nm, k)] = v; env["_" + nm] = v
    return env


def run_loop(E, n, st, k, sp, names, kind, pl):
    line = n.lineno
    is_set = kind == "set"
    if is_set:
        ety, M, wrap = pl
        done0 = SV(z3.K(ety.sort, False), SetVT(ety))
        itv = SV(M, SetVT(ety))
        def env_of(done): return hidden_env(k, done=done, it=itv)
        entry_env = env_of(done0)
    else:
        if kind == "range":
            lo, hi, step = pl
            total = z3.If(hi - lo > 0, hi - lo, 0) if step == 1 else z3.If(lo - hi > 0, lo - hi, 0)
            sview = None
        elif kind == "zip":
            (sq1, v1), (sq2, v2) = pl
            total = z3.If(sq1.len(v1) <= sq2.len(v2), sq1.len(v1), sq2.len(v2)); sview = None
        else:
            sq, v, mode = pl
            total = sq.len(v); sview = SV(v, sq if not isinstance(sq, PathT) else SeqT(NAME))
        def env_of(i):
            kw = {"i": SV(i, INT), "n": SV(total, INT)}
            if sview is not None: kw["s"] = sview
            return hidden_env(k, **kw)
        entry_env = env_of(z3.IntVal(0))
    # ---- invariant on entry
    for c, f in E.spec_inv(st, sp, entry_env):
        E.oblige(st, "loop-entry", "loop%d/%s" % (k, c.label), f, line, c.text)
    # ---- arbitrary iteration
    h, frame = E.havoc_loop(st, k, sp, names, st)
    if is_set:
        done = E.fresh("done", z3.ArraySort(ety.sort, B)); x = E.fresh("q", ety.sort)
        h.pc.append(z3.ForAll([x], z3.Implies(done[x], M[x])))
        cur_env = env_of(SV(done, SetVT(ety)))
    else:
        i = E.fresh("it", I)
        h.pc.append(z3.And(0 <= i, i <= total))
        cur_env = env_of(i)
    for c, f in E.spec_inv(h, sp, cur_env): E.assume(h, f)
    if not E.feasible(h): return
    h.trace.append("loop%d" % k)
    head = h.copy()
    # ---- one more iteration
    s_in = h.copy()
    if is_set:
        el = E.fresh("elt", ety.sort)
        s_in.pc.append(z3.And(M[el], z3.Not(done[el])))
        elem = SV(el, ety)
        if wrap:
            what, d = wrap
            ct, val = E.dict_val(s_in, d)
            elem = SV(val[el], ct.v) if what == "values" else E.mk_tuple([SV(el, ety), SV(val[el], ct.v)], s_in)
        nxt_env = env_of(SV(z3.Store(done, el, True), SetVT(ety)))
    else:
        s_in.pc.append(i < total)
        if kind == "range":
            elem = SV(lo + i if step == 1 else lo - i, INT)
        elif kind == "zip":
            elem = E.mk_tuple([SV(sq1.arr(v1)[i], sq1.elem), SV(sq2.arr(v2)[i], sq2.elem)], s_in)
        else:
            if mode == "plain": elem = SV(sq.arr(v)[i], sq.elem)
            elif mode == "reversed": elem = SV(sq.arr(v)[total - 1 - i], sq.elem)
            elif mode == "enumerate": elem = E.mk_tuple([SV(i, INT), SV(sq.arr(v)[i], sq.elem)], s_in)
            elif isinstance(mode, tuple):
                what, d = mode
                ct, val = E.dict_val(s_in, d); kx = sq.arr(v)[i]
                elem = SV(val[kx], ct.v) if what == "dvalues" else E.mk_tuple([SV(kx, sq.elem), SV(val[kx], ct.v)], s_in)
            else: raise Unsupported("iteration mode")
        nxt_env = env_of(i + 1)
    if E.feasible(s_in):
        s_in.trace.append("loop%d:body" % k)
        # the hidden variables of this loop stay visible (under their numbered names) to the invariants of nested loops
        s_in.hidden = dict(s_in.hidden)
        s_in.hidden.update({nm: v for nm, v in cur_env.items() if nm[-1].isdigit()})
        for s1, o in E.assign(n.target, elem, s_in):
            if o is not None: yield s1, o; continue
            for s2, o2 in E.block(n.body, s1):
                if o2 is None or o2[0] == "continue":
                    for cl, f in E.spec_inv(s2, sp, nxt_env):
                        E.oblige(s2, "loop-preserve", "loop%d/%s" % (k, cl.label), f, line, cl.text)
                    E.check_frame(head, s2, frame, "loop-frame", "loop%d" % k)
                elif o2[0] == "break":
                    s2.trace.append("loop%d:break" % k); yield s2, None
                else:
                    yield s2, o2
    # ---- exit
    s_out = h.copy()
    if is_set:
        s_out.pc.append(z3.ForAll([x], z3.Implies(M[x], done[x])))
        s_out.pc.append(done == M)
    else:
        s_out.pc.append(i == total)
    if E.feasible(s_out):
        s_out.trace.append("loop%d:exit" % k)
        if n.orelse: yield from E.block(n.orelse, s_out)
        else: yield s_out, None


# ---------------------------------------------------------------------------------------------- comprehensions
def pure_eval(E, node, st, binds, guards=(), qvars=None):
    """Evaluate a side-effect-free expression with extra bound names; must stay on a single normal path and leave
    the heap untouched; every exceptional outcome becomes the obligation that it is infeasible.
    Returns (SV, facts) where facts are the hypotheses added while evaluating."""
    s = st.copy()
    s.loc = dict(s.loc); s.loc.update(binds)
    s.pc.extend(guards)
    n0 = len(s.pc); heap0 = dict(s.heap)
    if qvars is None:
        # the variables the bound names range over (the facts are later quantified over them)
        qvars = []
        for b in binds.values():
            for t in _free_consts(b.v):
                if not any(t.eq(q) for q in qvars): qvars.append(t)
        qvars = [q for q in qvars if q.decl().name().split("!")[0] in ("ci", "cx", "ai", "ax", "ni", "nx")]
    saved_log = E._fresh_log; E._fresh_log = log = []
    try:
        outs = list(E.ev(node, s))
    finally:
        E._fresh_log = saved_log
        if saved_log is not None: saved_log.extend(log)
    normal = [(a, b) for a, b in outs if not isinstance(b, Exc)]
    for a, b in outs:
        if isinstance(b, Exc):
            E.oblige(a, "comprehension-safe", "L%d:%s" % (node.lineno - E.base_line, b.tag), z3.BoolVal(False), node.lineno,
                     "element/condition of the comprehension cannot raise %s" % b.tag)
    if not normal:
        raise Unsupported("comprehension element/condition has no normal outcome (line %s)" % node.lineno)
    for s1, v in normal:
        for r in set(s1.heap) | set(heap0):
            if r == "alloc": continue
            if r in s1.heap and r not in heap0: continue        # region first read here
            if not (r in heap0 and r in s1.heap and heap0[r].eq(s1.heap[r])):
                raise Unsupported("comprehension with heap effects")
    if len(normal) > 1:
        # short-circuit forks (a and b(), ...): the outcomes are merged into one value; each path's hypotheses hold only on it
        if len({v.ty.sort for _, v in normal}) != 1: raise Unsupported("comprehension element forks into different types (line %s)" % node.lineno)
        conds = [z3.And(*a.pc[n0:]) if len(a.pc) > n0 else z3.BoolVal(True) for a, _ in normal]
        val = normal[-1][1].v
        for cnd, (_, vv) in zip(reversed(conds[:-1]), reversed(normal[:-1])):
            val = z3.If(cnd, vv.v, val)
        s1 = normal[0][0].copy(); del s1.pc[n0:]; s1.pc.append(z3.Or(*conds))
        v = SV(val, normal[0][1].ty)
    else:
        s1, v = normal[0]
    facts = s1.pc[n0:]
    if qvars and log:
        # values created while evaluating the element (call results, ...) depend on the bound variable: skolem functions of it
        used = set()
        for f in facts + [v.v]:
            used |= {t.decl().name() for t in _free_consts(f)}
        subs = [(c, z3.Function(c.decl().name() + "!sk", *([q.sort() for q in qvars] + [c.sort()]))(*qvars)) for c in log if c.decl().name() in used]
        if subs:
            v2 = SV(z3.substitute(v.v, *subs), v.ty); v2.py = v.py; v = v2
            facts = [z3.substitute(f, *subs) for f in facts]
    return v, facts


def _free_consts(t, _seen=None):
    out, seen, todo = [], set(), [t]
    while todo:
        x = todo.pop()
        if x.get_id() in seen: continue
        seen.add(x.get_id())
        if z3.is_quantifier(x): todo.append(x.body()); continue
        if z3.is_app(x):
            if x.num_args() == 0 and x.decl().kind() == z3.Z3_OP_UNINTERPRETED: out.append(x)
            todo.extend(x.children())
    return out


def comp_parts(E, n, st):
    if len(n.generators) != 1 or n.generators[0].is_async: raise Unsupported("nested comprehension")
    g = n.generators[0]
    srcs = [(s, k, p) for s, k, p in iter_source(E, g.iter, st)]
    if len(srcs) != 1 or isinstance(srcs[0][1], Exc): raise Unsupported("comprehension source forks")
    return g, srcs[0]


def bind_target(E, tgt, elem, st):
    if isinstance(tgt, ast.Name): return {tgt.id: elem}
    if isinstance(tgt, ast.Tuple) and isinstance(elem.ty, TupT):
        out = {}
        for t, i in zip(tgt.elts, range(len(elem.ty.items))):
            out.update(bind_target(E, t, SV(elem.ty.get(elem.v, i), elem.ty.items[i]), st))
        return out
    raise Unsupported("comprehension target")


def list_comp(E, n, st):
    g, (s1, kind, pl) = comp_parts(E, n, st)
    if kind == "set":
        ety, M, wrap = pl
        if wrap: raise Unsupported("comprehension over dict items")
        x = E.fresh("cx", ety.sort)
        binds = bind_target(E, g.target, SV(x, ety), s1)
        conds, facts = [], []
        for c in g.ifs:
            v, f = pure_eval(E, c, s1, binds, [M[x]] + conds); conds.append(E.truth(v, s1)); facts += f
        ev, f = pure_eval(E, n.elt, s1, binds, [M[x]] + conds); facts += f
        if not (ev.ty.sort == ety.sort and ev.v.eq(x)):
            # [f(x) for x in S if c(x)] over a set: a list whose elements are exactly the values f(x) of the selected members
            # (order and multiplicity unspecified -- enough for max()/membership consumers)
            res = E.fresh("mapcomp", z3.ArraySort(I, ev.ty.sort)); ln = E.fresh("mapcomplen", I); i = E.fresh("i", I)
            wit = z3.Function("mapcomp_wit!%d" % E._n, I, ety.sort); idx = z3.Function("mapcomp_idx!%d" % E._n, ety.sort, I)
            sel = z3.And(M[x], *conds)
            s1.pc.append(ln >= 0)
            s1.pc.append(z3.ForAll([x], z3.And(*facts, z3.Implies(sel, z3.And(0 <= idx(x), idx(x) < ln, res[idx(x)] == ev.v)))))
            fx = z3.substitute(z3.And(sel, res[i] == ev.v), (x, wit(i)))
            s1.pc.append(z3.ForAll([i], z3.Implies(z3.And(0 <= i, i < ln), fx)))
            r = E.alloc(s1, ListT(ev.ty), "comp")
            E.set_seq(s1, r, SeqT(ev.ty).mk(ln, res))
            yield s1, r; return
        filt = E.fresh("filt", z3.ArraySort(ety.sort, B))
        s1.pc.append(z3.ForAll([x], z3.And(*facts, filt[x] == z3.And(M[x], *conds))))
        from .intrinsics import enum_of_set
        yield s1, enum_of_set(E, s1, ety, filt, as_list=True); return
    if kind == "seq" and pl[2] == "plain":
        sq, v, _ = pl
        i = E.fresh("ci", I)
        binds = bind_target(E, g.target, SV(sq.arr(v)[i], sq.elem), s1)
        if g.ifs:
            # [f(x) for x in seq if c(x)]: the selected elements in order -- a strictly increasing index map `src` from the
            # result into seq, onto the selected positions (`inv` its inverse)
            conds, facts = [], []
            for c in g.ifs:
                cv, f = pure_eval(E, c, s1, binds, [z3.And(0 <= i, i < sq.len(v))] + conds); conds.append(E.truth(cv, s1)); facts += f
            ev, f = pure_eval(E, n.elt, s1, binds, [z3.And(0 <= i, i < sq.len(v))] + conds); facts += f
            sel = z3.And(*conds)
            src = z3.Function("filt_src!%d" % E._n, I, I); inv = z3.Function("filt_inv!%d" % E._n, I, I); E._n += 1
            res = E.fresh("filtcomp", z3.ArraySort(I, ev.ty.sort)); ln = E.fresh("filtlen", I)
            a, b = E.fresh("a", I), E.fresh("b", I)
            inr = z3.And(0 <= i, i < sq.len(v))
            s1.pc.append(z3.And(0 <= ln, ln <= sq.len(v)))
            if facts: s1.pc.append(z3.ForAll([i], z3.Implies(inr, z3.And(*facts))))
            s1.pc.append(z3.ForAll([a], z3.Implies(z3.And(0 <= a, a < ln), z3.And(0 <= src(a), src(a) < sq.len(v), inv(src(a)) == a,
                         z3.substitute(z3.And(sel, res[a] == ev.v), (i, src(a)))))))
            s1.pc.append(z3.ForAll([a, b], z3.Implies(z3.And(0 <= a, a < b, b < ln), src(a) < src(b))))
            s1.pc.append(z3.ForAll([i], z3.Implies(z3.And(inr, sel), z3.And(0 <= inv(i), inv(i) < ln, src(inv(i)) == i))))
            r = E.alloc(s1, ListT(ev.ty), "comp")
            E.set_seq(s1, r, SeqT(ev.ty).mk(ln, res))
            yield s1, r; return
        ev, facts = pure_eval(E, n.elt, s1, binds)
        res = E.fresh("comp", z3.ArraySort(I, ev.ty.sort))
        s1.pc.append(z3.ForAll([i], z3.Implies(z3.And(0 <= i, i < sq.len(v)), z3.And(*facts, res[i] == ev.v))))
        r = E.alloc(s1, ListT(ev.ty), "comp")
        E.set_seq(s1, r, SeqT(ev.ty).mk(sq.len(v), res))
        yield s1, r; return
    raise Unsupported("list comprehension form at line %s" % n.lineno)


def any_all(E, n, st, kind):
    gen = n.args[0]
    g, (s1, skind, pl) = comp_parts(E, gen, st)
    if skind == "seq" and pl[2] == "plain":
        sq, v, _ = pl
        i = E.fresh("ai", I)
        binds = bind_target(E, g.target, SV(sq.arr(v)[i], sq.elem), s1)
        guard = [z3.And(0 <= i, i < sq.len(v))]
        bound = [i]
    elif skind == "set":
        ety, M, wrap = pl
        if wrap: raise Unsupported("any/all over dict items")
        x = E.fresh("ax", ety.sort); binds = bind_target(E, g.target, SV(x, ety), s1)
        guard = [M[x]]; bound = [x]
    else:
        raise Unsupported("any/all source")
    facts = []
    for c in g.ifs:
        cv, f = pure_eval(E, c, s1, binds); guard.append(E.truth(cv, s1)); facts += f
    ev, f = pure_eval(E, gen.elt, s1, binds); facts += f
    body = E.truth(ev, s1)
    if facts: s1.pc.append(z3.ForAll(bound, z3.And(*facts)))
    if kind == "all": yield s1, SV(z3.ForAll(bound, z3.Implies(z3.And(*guard), body)), BOOL)
    else: yield s1, SV(z3.Exists(bound, z3.And(*guard, body)), BOOL)


def next_first(E, n, st):
    """next((elt for x in seq if cond), default): the first element satisfying cond, else default."""
    gen, default = n.args[0], (n.args[1] if len(n.args) > 1 else None)
    if default is None: raise Unsupported("next() without default")
    g, (s1, skind, pl) = comp_parts(E, gen, st)
    if skind != "seq": raise Unsupported("next() over a non-sequence")
    sq, v, mode = pl
    if mode not in ("plain", "enumerate"): raise Unsupported("next() source mode")
    i = E.fresh("ni", I)
    def elem_at(ix):
        return SV(sq.arr(v)[ix], sq.elem) if mode == "plain" else E.mk_tuple([SV(ix, INT), SV(sq.arr(v)[ix], sq.elem)], s1)
    binds = bind_target(E, g.target, elem_at(i), s1)
    conds, facts = [], []
    for c in g.ifs:
        cv, f = pure_eval(E, c, s1, binds); conds.append(E.truth(cv, s1)); facts += f
    ev, f = pure_eval(E, gen.elt, s1, binds); facts += f
    if facts: s1.pc.append(z3.ForAll([i], z3.And(*facts)))
    cond_i = z3.And(*conds) if conds else z3.BoolVal(True)
    for s2, d in E.ev(default, s1):
        if isinstance(d, Exc): yield s2, d; continue
        # found branch
        sf = s2.copy(); p = E.fresh("first", I); j = E.fresh("j", I)
        sf.pc.append(z3.And(0 <= p, p < sq.len(v), z3.substitute(cond_i, (i, p)),
                            z3.ForAll([j], z3.Implies(z3.And(0 <= j, j < p), z3.Not(z3.substitute(cond_i, (i, j)))))))
        if E.feasible(sf):
            sf.trace.append("L%d:next+" % (n.lineno - E.base_line))
            rv = SV(z3.substitute(ev.v, (i, p)), ev.ty)
            yield sf, rv
        sn = s2.copy()
        sn.pc.append(z3.ForAll([j], z3.Implies(z3.And(0 <= j, j < sq.len(v)), z3.Not(z3.substitute(cond_i, (i, j))))))
        if E.feasible(sn):
            sn.trace.append("L%d:next-" % (n.lineno - E.base_line))
            yield sn, (E.coerce(d, ev.ty) if d.ty is NONE and ev.ty is not NONE else d)
