"""Lemmas: obligations with no code, stated over the same compiled contract clauses (DESIGN.md section 2.7)."""
import ast
import z3
from .ty import *
from .engine import State
from .specev import SpecEval


class LemmaCtx:
    def __init__(self, eng):
        self.eng = eng
        self.n = 0

    def state(self, tag):
        """An arbitrary abstract state: every heap region is an independent symbol named after the tag."""
        st = State(tag, prefix=tag)
        return st

    def const(self, name, tystr):
        ty = parse_type(tystr)
        return SV(z3.Const(name, ty.sort), ty)

    def holds(self, text, st, old=None, **env):
        """compile a clause string over (old, st) with the given bindings"""
        ev = SpecEval(self.eng, st, old or st, env)
        return ev.bool(ast.parse(text.strip(), mode="eval").body)

    def contract_post(self, qual, pre, post, args, result=None, which="ensures"):
        """conjunction of a contract's ensures (or raises[T]) clauses over (pre, post) with parameters bound to args"""
        c = self.eng.reg.contracts[qual]
        view = post.copy(); view.loc = dict(args)
        oldv = pre.copy(); oldv.loc = dict(args)
        env = {}
        if result is not None: env["result"] = result
        ev = SpecEval(self.eng, view, oldv, env)
        clauses = c.ensures if which == "ensures" else c.raises[which]
        return [ev.bool(cl.ast) for cl in clauses]

    def contract_pre(self, qual, pre, args):
        c = self.eng.reg.contracts[qual]
        view = pre.copy(); view.loc = dict(args)
        ev = SpecEval(self.eng, view, view, {})
        return [ev.bool(cl.ast) for cl in c.requires]
