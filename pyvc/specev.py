"""Evaluation of contract clauses (spec expressions) over a symbolic (old, new) state pair.

Spec expressions are Python expressions (parsed with ast) with these extras:
  old(e)                         e evaluated in the entry state of the function
  result, raised                 the returned value / the exception object
  implies(a, b), iff(a, b), ite(c, a, b)
  all(P for x in range(a, b)) / any(...)      bounded integer quantifier
  all(P for x in S)                           quantifier over members of a set-like / sequence-like value
  all(P for x in every('node'))               quantifier over a whole sort ('node','key','ref','int','val','name')
  dom(d) nodes(g) elems(s) | & - <= on pure sets;  seqof(l) content of a list as a sequence value
  has_node(g, n) has_edge(g, a, b); item(c, k) objnode(c) is_item(n) obj(n) key(n)
  registered spec functions / macros (spec.Registry.specfun / macro)
Partial operations (index out of range, missing key) are total here (unspecified value).
"""
import ast
import z3
from .ty import *
from . import ty as T


class SpecError(Exception):
    pass


class SpecEval:
    def __init__(self, eng, st, old, env, prefer_old_params=None):
        self.eng, self.st, self.old, self.env = eng, st, old, env
        self.prefer_old = prefer_old_params

    # ------------------------------------------------------------------ public
    def bool(self, node):
        v = self.term(node)
        return self.eng.truth(v, self.st) if v.ty is not BOOL else v.v

    def sub(self, st=None, env=None):
        e = SpecEval(self.eng, st or self.st, self.old, dict(self.env) if env is None else env, self.prefer_old)
        return e

    def term(self, n):
        m = getattr(self, "t_" + type(n).__name__, None)
        if m is None: raise SpecError("spec expression %s not supported: %s" % (type(n).__name__, ast.unparse(n)))
        return m(n)

    # ------------------------------------------------------------------ atoms
    def t_Constant(self, n): return self.eng.const(n.value)

    def t_Name(self, n):
        if n.id in self.env: return self.env[n.id]
        if n.id in ("True", "False"): return SV(z3.BoolVal(n.id == "True"), BOOL)
        if self.prefer_old and n.id in self.prefer_old and n.id in self.old.loc: return self.old.loc[n.id]
        if n.id in self.st.loc: return self.st.loc[n.id]
        if n.id in self.old.loc: return self.old.loc[n.id]
        if n.id in self.eng.reg.consts: return self.eng.const(self.eng.reg.consts[n.id])
        if n.id == "null": return SV(NULL, NONE)
        if n.id in self.eng.reg.globals: return self.eng.global_obj(n.id)
        raise SpecError("unbound name in spec: %s" % n.id)

    def t_Attribute(self, n):
        o = self.term(n.value)
        return self.eng.get_field(self.st, o, n.attr)

    def t_UnaryOp(self, n):
        v = self.term(n.operand)
        if isinstance(n.op, ast.Not): return SV(z3.Not(self.eng.truth(v, self.st)), BOOL)
        if isinstance(n.op, ast.USub): return SV(-v.v, INT)
        raise SpecError("unary")

    def t_BoolOp(self, n):
        vs = [self.bool(v) for v in n.values]
        return SV(z3.And(*vs) if isinstance(n.op, ast.And) else z3.Or(*vs), BOOL)

    def t_IfExp(self, n):
        c = self.bool(n.test); a = self.term(n.body); b = self.term(n.orelse)
        if a.ty is NONE: a = self.eng.coerce(a, b.ty)
        if b.ty is NONE: b = self.eng.coerce(b, a.ty)
        return SV(z3.If(c, a.v, b.v), a.ty)

    def t_Compare(self, n):
        left = self.term(n.left); out = []
        for op, c in zip(n.ops, n.comparators):
            right = self.term(c)
            out.append(self.cmp(op, left, right)); left = right
        return SV(z3.And(*out) if len(out) > 1 else out[0], BOOL)

    def cmp(self, op, a, b):
        E = self.eng
        if isinstance(op, ast.In): return self.member(b, a)
        if isinstance(op, ast.NotIn): return z3.Not(self.member(b, a))
        if isinstance(a.ty, SetVT) or isinstance(b.ty, SetVT):
            a = self.as_set(a); b = self.as_set(b)
            x = E.fresh("q", a.ty.elem.sort)
            if isinstance(op, ast.Eq): return a.v == b.v
            if isinstance(op, ast.NotEq): return a.v != b.v
            if isinstance(op, ast.LtE): return z3.ForAll([x], z3.Implies(a.v[x], b.v[x]))
            if isinstance(op, ast.GtE): return z3.ForAll([x], z3.Implies(b.v[x], a.v[x]))
            raise SpecError("set comparison")
        if isinstance(op, (ast.Eq, ast.Is)): return E.equal(a, b, self.st, identity=isinstance(op, ast.Is))
        if isinstance(op, (ast.NotEq, ast.IsNot)): return z3.Not(E.equal(a, b, self.st, identity=isinstance(op, ast.IsNot)))
        if isinstance(op, ast.In): return self.member(b, a)
        if isinstance(op, ast.NotIn): return z3.Not(self.member(b, a))
        r = {ast.Lt: lambda: a.v < b.v, ast.LtE: lambda: a.v <= b.v, ast.Gt: lambda: a.v > b.v, ast.GtE: lambda: a.v >= b.v}
        return r[type(op)]()

    def member(self, cont, x):
        if isinstance(cont.ty, SetVT): return cont.v[self.eng.coerce(x, cont.ty.elem).v]
        return self.eng.contains(cont, x, self.st)

    def as_set(self, sv):
        if isinstance(sv.ty, SetVT): return sv
        e, m = self.eng.set_of(self.st, sv)
        return SV(m, SetVT(e))

    def t_BinOp(self, n):
        a = self.term(n.left); b = self.term(n.right)
        if isinstance(a.ty, SetVT) or isinstance(b.ty, SetVT):
            a = self.as_set(a); b = self.as_set(b)
            x = z3.Const("sx", a.ty.elem.sort)
            if isinstance(n.op, ast.BitOr): f = z3.Or(a.v[x], b.v[x])
            elif isinstance(n.op, ast.BitAnd): f = z3.And(a.v[x], b.v[x])
            elif isinstance(n.op, ast.Sub): f = z3.And(a.v[x], z3.Not(b.v[x]))
            else: raise SpecError("set op")
            return SV(z3.Lambda([x], f), a.ty)
        if isinstance(a.ty, SeqT) and isinstance(b.ty, SeqT) and isinstance(n.op, ast.Add):
            sq = a.ty
            nlen = sq.len(a.v) + sq.len(b.v)
            i = z3.Const("ci", I)
            arr = z3.Lambda([i], z3.If(i < sq.len(a.v), sq.arr(a.v)[i], sq.arr(b.v)[i - sq.len(a.v)]))
            return SV(sq.mk(nlen, arr), sq)
        return self.eng.binop(n.op, a, b, self.st, n)

    def t_Tuple(self, n):
        return self.eng.mk_tuple([self.term(e) for e in n.elts], self.st)

    def t_Set(self, n):
        vs = [self.term(e) for e in n.elts]
        x = z3.Const("sx", vs[0].ty.sort)
        return SV(z3.Lambda([x], z3.Or(*[x == v.v for v in vs])), SetVT(vs[0].ty))

    def t_Subscript(self, n):
        o = self.term(n.value)
        E = self.eng
        if isinstance(n.slice, ast.Slice):
            sq, v = E.seq_of(self.st, o)
            ln = sq.len(v)
            lo = self.term(n.slice.lower).v if n.slice.lower is not None else None
            hi = self.term(n.slice.upper).v if n.slice.upper is not None else None
            def norm(x, d):
                if x is None: return d
                c = z3.If(x < 0, ln + x, x)
                return z3.If(c < 0, 0, z3.If(c > ln, ln, c))
            a = norm(lo, z3.IntVal(0)); b = norm(hi, ln)
            m = z3.If(b - a < 0, 0, b - a)
            if lo is None: return SV(sq.mk(m, sq.arr(v)), sq if not isinstance(o.ty, PathT) else o.ty)
            i = z3.Const("si", I)
            return SV(sq.mk(m, z3.Lambda([i], sq.arr(v)[i + a])), sq if not isinstance(o.ty, PathT) else o.ty)
        ix = self.term(n.slice)
        k = E.static_int(ix)
        if o.ty is NODE:
            if k == 0: return SV(z3.If(Node.is_item(o.v), Node.obj(o.v), Node.oobj(o.v)), RefT("CellsImpl"))
            if k == 1: return SV(Node.key(o.v), KEY)
        if isinstance(o.ty, TupT):
            if k < 0: k += len(o.ty.items)
            return SV(o.ty.get(o.v, k), o.ty.items[k])
        ct = E.content_type(o) if o.ty.sort == Ref else None
        if isinstance(o.ty, SeqT) or isinstance(ct, ListT):
            sq, v = E.seq_of(self.st, o)
            idx = z3.If(ix.v >= 0, ix.v, sq.len(v) + ix.v) if k is None else (z3.IntVal(k) if k >= 0 else sq.len(v) + k)
            return SV(sq.arr(v)[idx], sq.elem)
        if isinstance(ct, DictT):
            _, val = E.dict_val(self.st, o)
            return SV(val[E.coerce(ix, ct.k).v], ct.v)
        raise SpecError("subscript in spec on %s" % o.ty)

    # ------------------------------------------------------------------ calls
    def t_Call(self, n):
        E = self.eng
        f = n.func
        if isinstance(f, ast.Name):
            name = f.id
            if name == "old":
                return SpecEval(E, self.old, self.old, self.env, self.prefer_old).term(n.args[0])
            if name in ("all", "any"): return self.quant(name, n.args[0])
            if name == "implies": return SV(z3.Implies(self.bool(n.args[0]), self.bool(n.args[1])), BOOL)
            if name == "iff": return SV(self.bool(n.args[0]) == self.bool(n.args[1]), BOOL)
            if name == "ite": return self.t_IfExp(ast.IfExp(test=n.args[0], body=n.args[1], orelse=n.args[2]))
            if name == "len":
                o = self.term(n.args[0])
                if o.ty is STR:
                    E.str_repeat(E.strconst("."), z3.IntVal(0))
                    return SV(z3.Function("str_len", Str, I)(o.v), INT)
                sq, v = E.seq_of(self.st, o); return SV(sq.len(v), INT)
            if name == "path_empty":
                return SV(PATH.mk(z3.IntVal(1), z3.K(I, EPS)), PATH)
            if name == "dots":
                return SV(E.str_repeat(E.strconst("."), self.term(n.args[0]).v), STR)
            if name == "isinstance":
                o = self.term(n.args[0]); return SV(self.isinst(o, n.args[1]), BOOL)
            if name == "min" or name == "max":
                a = self.term(n.args[0]); b = self.term(n.args[1])
                return SV(z3.If((a.v <= b.v) if name == "min" else (a.v >= b.v), a.v, b.v), INT)
            if name in ("dom", "nodes", "members"): return self.as_set(self.term(n.args[0]))
            if name == "elems":
                o = self.term(n.args[0]); sq, v = E.seq_of(self.st, o)
                x = z3.Const("sx", sq.elem.sort); i = z3.Const("si", I)
                return SV(z3.Lambda([x], z3.Exists([i], z3.And(0 <= i, i < sq.len(v), sq.arr(v)[i] == x))), SetVT(sq.elem))
            if name == "seqof":
                o = self.term(n.args[0]); sq, v = E.seq_of(self.st, o); return SV(v, sq)
            if name == "has_node":
                g = self.term(n.args[0]); e, m = E.set_of(self.st, g); return SV(m[E.coerce(self.term(n.args[1]), e).v], BOOL)
            if name == "has_edge":
                g = self.term(n.args[0]); ct, ed = E.edges_of(self.st, g)
                return SV(ed[E.coerce(self.term(n.args[1]), ct.elem).v][E.coerce(self.term(n.args[2]), ct.elem).v], BOOL)
            if name == "edges":
                g = self.term(n.args[0]); ct, ed = E.edges_of(self.st, g); return SV(ed, EdgeVT(ct.elem))
            if name == "item": return SV(Node.item(self.term(n.args[0]).v, self.term(n.args[1]).v), NODE)
            if name == "objnode": return SV(Node.objnode(self.term(n.args[0]).v), NODE)
            if name == "is_item": return SV(Node.is_item(self.term(n.args[0]).v), BOOL)
            if name == "obj":
                o = self.term(n.args[0]); return SV(z3.If(Node.is_item(o.v), Node.obj(o.v), Node.oobj(o.v)), RefT("CellsImpl"))
            if name == "key": return SV(Node.key(self.term(n.args[0]).v), KEY)
            if name == "rf": return SV(T.RNode.rf(self.term(n.args[0]).v), RNODE)
            if name == "nd": return SV(T.RNode.nd(self.term(n.args[0]).v), RNODE)
            if name == "is_nd": return SV(T.RNode.is_nd(self.term(n.args[0]).v), BOOL)
            if name == "nd_of": return SV(T.RNode.nd_node(self.term(n.args[0]).v), NODE)
            if name == "rf_of": return SV(T.RNode.rf_ref(self.term(n.args[0]).v), RefT("ReferenceImpl"))
            if name == "allocated":
                o = self.term(n.args[0]); return SV(self.st.H("alloc", B)[o.v], BOOL)
            if name == "fresh":      # allocated during the call
                o = self.term(n.args[0]); return SV(z3.And(self.st.H("alloc", B)[o.v], z3.Not(self.old.H("alloc", B)[o.v])), BOOL)
            if name == "bitand_nz":
                a = self.term(n.args[0]); b = self.term(n.args[1])
                return SV(z3.Function("bitand", I, I, I)(a.v, b.v) != 0, BOOL)
            if name == "is_instance":
                o = self.term(n.args[0]); k = self.term(n.args[1])
                return SV(z3.Function("dyn_isinstance_of", Ref, Ref, B)(o.v, k.v), BOOL)
            if name == "is_instance_named":
                o = self.term(n.args[0])
                if o.ty is VAL:
                    return SV(z3.Function("val_isinstance", Val, Str, B)(o.v, self.eng.strconst(n.args[1].value)), BOOL)
                return SV(z3.Function("dyn_isinstance", Ref, Str, B)(o.v, self.eng.strconst(n.args[1].value)), BOOL)
            if name == "id_of":
                o = self.term(n.args[0])
                return SV(z3.Function("id_of", o.ty.sort, I)(o.v), INT)
            if name == "ambient_exc":
                e = self.st.cur_exc
                return SV(e.ref if e is not None else z3.Const("ambient_exc", Ref), RefT("BaseException"))
            if name == "unchanged":
                return SV(z3.And(*[self.unchanged(a) for a in n.args]), BOOL)
            if name in E.reg.specfuns:
                fn = E.reg.specfuns[name]
                if isinstance(fn, tuple):
                    params, body = fn
                    env = dict(self.env)
                    for p, a in zip(params, n.args): env[p] = self.term(a)
                    return self.sub(env=env).term(body)
                return fn(self, *[self.term(a) for a in n.args])
            raise SpecError("unknown spec function %s" % name)
        if isinstance(f, ast.Attribute):
            # method-call sugar for a few pure container operations
            recv = self.term(f.value)
            if f.attr == "has_node":
                ct = E.content_type(recv)
                if isinstance(ct, GraphT):
                    e, m = E.set_of(self.st, recv); return SV(m[E.coerce(self.term(n.args[0]), e).v], BOOL)
            if f.attr == "get" and isinstance(E.content_type(recv), DictT):
                ct = E.content_type(recv)
                e, dom = E.set_of(self.st, recv); _, val = E.dict_val(self.st, recv)
                k = E.coerce(self.term(n.args[0]), ct.k).v
                d = E.coerce(self.term(n.args[1]) if len(n.args) > 1 else SV(NULL, NONE), ct.v)
                return SV(z3.If(dom[k], val[k], d.v), ct.v)
            # pure methods with a registered macro "Class.method"
            if isinstance(recv.ty, RefT):
                c = E.reg.find_method(recv.ty.cls, f.attr)
                key = None
                seen = [recv.ty.cls]
                while seen:
                    cn = seen.pop(0)
                    if cn + "." + f.attr in E.reg.specfuns: key = cn + "." + f.attr; break
                    if cn in E.reg.classes: seen.extend(E.reg.classes[cn].bases)
                if key:
                    fn = E.reg.specfuns[key]
                    if isinstance(fn, tuple):
                        params, body = fn
                        env = dict(self.env); env[params[0]] = recv
                        for p, a in zip(params[1:], n.args): env[p] = self.term(a)
                        return self.sub(env=env).term(body)
                    return fn(self, recv, *[self.term(a) for a in n.args])
            raise SpecError("method %s in spec on %s" % (f.attr, recv.ty))
        raise SpecError("call form in spec")

    def unchanged(self, a):
        """content/identity of location expression a is the same as in the old state"""
        new = self.term(a); oldv = SpecEval(self.eng, self.old, self.old, self.env, self.prefer_old).term(a)
        E = self.eng
        ct = E.content_type(new) if new.ty.sort == Ref else None
        out = [new.v == oldv.v]
        if isinstance(ct, ListT):
            sq, v1 = E.seq_of(self.st, new); _, v0 = E.seq_of(self.old, oldv)
            out.append(E.seq_eq(sq, v1, v0))
        elif isinstance(ct, (SetT, DictT, GraphT)):
            _, m1 = E.set_of(self.st, new); _, m0 = E.set_of(self.old, oldv)
            out.append(m1 == m0)
            if isinstance(ct, DictT):
                _, d1 = E.dict_val(self.st, new); _, d0 = E.dict_val(self.old, oldv)
                x = E.fresh("u", ct.k.sort)
                out.append(z3.ForAll([x], z3.Implies(m1[x], d1[x] == d0[x])))
            if isinstance(ct, GraphT):
                _, e1 = E.edges_of(self.st, new); _, e0 = E.edges_of(self.old, oldv)
                out.append(e1 == e0)
        return z3.And(*out)

    def isinst(self, o, clsnode):
        if isinstance(clsnode, ast.Name) and clsnode.id in self.st.loc and self.st.loc[clsnode.id].ty.sort == Ref:
            # isinstance(x, klass) with klass a run-time class object: uninterpreted predicate
            return z3.Function("dyn_isinstance_of", Ref, Ref, B)(o.v, self.st.loc[clsnode.id].v)
        names = [c.id for c in clsnode.elts] if isinstance(clsnode, ast.Tuple) else [clsnode.id]
        if isinstance(o.ty, RefT):
            if any(self.eng.reg.is_subclass(o.ty.cls, nm) for nm in names): return o.v != NULL
            dyn = z3.Function("dyn_isinstance", Ref, Str, B)
            return z3.Or(*[dyn(o.v, self.eng.strconst(nm)) for nm in names])
        if o.ty is VAL:
            dynv = z3.Function("val_isinstance", Val, Str, B)
            return z3.Or(*[dynv(o.v, self.eng.strconst(nm)) for nm in names])
        return z3.BoolVal(False)

    # ------------------------------------------------------------------ quantifiers
    def quant(self, kind, gen):
        if not isinstance(gen, ast.GeneratorExp): raise SpecError("all/any needs a generator expression")
        env = dict(self.env); bound = []; guards = []
        sub = self.sub(env=env)
        for g in gen.generators:
            it = g.iter
            if isinstance(it, ast.Call) and isinstance(it.func, ast.Name) and it.func.id == "range":
                x = self.eng.fresh(g.target.id, I); env[g.target.id] = SV(x, INT); bound.append(x)
                args = [sub.term(a).v for a in it.args]
                lo, hi = (z3.IntVal(0), args[0]) if len(args) == 1 else (args[0], args[1])
                guards.append(z3.And(lo <= x, x < hi))
                self._last_range = (x, lo, hi)
            elif isinstance(it, ast.Call) and isinstance(it.func, ast.Name) and it.func.id == "every":
                ty = parse_type(it.args[0].value)
                x = self.eng.fresh(g.target.id, ty.sort); env[g.target.id] = SV(x, ty); bound.append(x)
                # no non-null guard: clauses quantified over every('C') also speak about the null object's (unused) fields
            else:
                c = sub.term(it)
                if isinstance(c.ty, SetVT) or isinstance(self.eng.content_type(c) if c.ty.sort == Ref else None, (SetT, DictT, GraphT)):
                    s = sub.as_set(c)
                    x = self.eng.fresh(g.target.id, s.ty.elem.sort); env[g.target.id] = SV(x, s.ty.elem); bound.append(x)
                    guards.append(s.v[x])
                else:
                    sq, v = self.eng.seq_of(self.st, c)
                    i = self.eng.fresh("qi", I); bound.append(i)
                    tgt = g.target
                    if isinstance(tgt, ast.Name): env[tgt.id] = SV(sq.arr(v)[i], sq.elem)
                    else: raise SpecError("tuple target in spec quantifier")
                    guards.append(z3.And(0 <= i, i < sq.len(v)))
            for cond in g.ifs:
                guards.append(sub.bool(cond))
        body = sub.bool(gen.elt)
        if kind == "all": return SV(z3.ForAll(bound, z3.Implies(z3.And(*guards), body)), BOOL)
        ex = z3.Exists(bound, z3.And(*guards, body))
        rng = getattr(self, "_last_range", None)
        if len(bound) == 1 and len(gen.generators) == 1 and rng is not None and rng[0] is bound[0]:
            # equivalent reformulation: the existential OR its instances at the two ends of the range (ground witnesses
            # for E-matching: "the element just appended", "the first element")
            x, lo, hi = rng
            f = z3.And(*guards, body)
            ex = z3.Or(ex, z3.substitute(f, (x, hi - 1)), z3.substitute(f, (x, lo)))
        return SV(ex, BOOL)

    # ------------------------------------------------------------------ locations (modifies clauses)
    def locations(self, text):
        """'e.f' | 'content(e)' | 'every(C.f)' | 'every_content(\"list[int]\")'  ->  [(region, range sort, ref|None)]"""
        E = self.eng
        n = ast.parse(text.strip(), mode="eval").body
        if isinstance(n, ast.Call) and isinstance(n.func, ast.Name) and n.func.id == "every":
            a = n.args[0]
            region, fty = E.field_region(a.value.id, a.attr)
            return [(region, fty.sort, None)]
        if isinstance(n, ast.Call) and isinstance(n.func, ast.Name) and n.func.id == "every_content":
            return [(r, s, None) for r, s in self.content_regions(parse_type(n.args[0].value))]
        if isinstance(n, ast.Call) and isinstance(n.func, ast.Name) and n.func.id == "content":
            o = self.term(n.args[0])
            ct = E.content_type(o)
            if ct is None: raise SpecError("content() of non-container %s" % o.ty)
            return [(r, s, o.v) for r, s in self.content_regions(ct)]
        if isinstance(n, ast.Attribute):
            o = self.term(n.value)
            region, fty = E.field_region(o.ty.cls, n.attr)
            return [(region, fty.sort, o.v)]
        raise SpecError("bad location %r" % text)

    def content_regions(self, ct):
        if isinstance(ct, ListT): return [(ct.region, ct.seqty.sort)]
        if isinstance(ct, SetT): return [(ct.region, z3.ArraySort(ct.elem.sort, B))]
        if isinstance(ct, DictT):
            out = [(ct.dom_region, z3.ArraySort(ct.k.sort, B)), (ct.val_region, z3.ArraySort(ct.k.sort, ct.v.sort))]
            if ct.ordered: out.append((ct.key_region, SeqT(ct.k).sort))
            return out
        if isinstance(ct, GraphT):
            es = z3.ArraySort(ct.elem.sort, z3.ArraySort(ct.elem.sort, B))
            return [(ct.node_region, z3.ArraySort(ct.elem.sort, B)), (ct.edge_region, es)]
        raise SpecError("no content regions for %s" % ct)


class EdgeVT(Ty):
    def __init__(self, elem):
        self.elem = elem; self.name = "edgev[%s]" % elem.name
        self.sort = z3.ArraySort(elem.sort, z3.ArraySort(elem.sort, B))
