"""pyvc engine: path-wise symbolic execution of the ast of real modelx functions against sidecar contracts
(DESIGN.md sections 2.1-2.4).  Produces verification conditions (hypotheses |- goal) as z3 terms.

Supported subset and what extraction drops are stated in DESIGN.md section 2.1; anything outside raises
Unsupported, and a function that raises Unsupported yields no proved obligation.
"""
import ast, itertools
import z3
from .ty import *
from . import ty as T
from .spec import Registry, Contract, find_function


class Unsupported(Exception):
    pass


_hq_cache = {}


def has_quant(f):
    k = f.get_id()
    if k in _hq_cache and _hq_cache[k][0].eq(f): return _hq_cache[k][1]
    todo = [f]; seen = set(); res = False
    while todo:
        t = todo.pop()
        if t.get_id() in seen: continue
        seen.add(t.get_id())
        if z3.is_quantifier(t): res = True; break
        todo.extend(t.children())
    _hq_cache[k] = (f, res)       # keeping f alive keeps its id from being reused
    return res


class Exc:
    """Exceptional outcome: static type tag (None = statically unknown) + exception object."""
    def __init__(self, tag, ref, origin=""):
        self.tag, self.ref, self.origin = tag, ref, origin
    def __repr__(self): return "Exc(%s)" % self.tag


class State:
    def __init__(self, tag="s", prefix="H0"):
        self.tag = tag
        self.prefix = prefix
        self.loc = {}
        self.heap = {}
        self.pc = []
        self.trace = []
        self.cur_exc = None
        self.hidden = {}

    def copy(self):
        s = State.__new__(State)
        s.tag = self.tag; s.prefix = self.prefix; s.loc = dict(self.loc); s.heap = dict(self.heap); s.pc = list(self.pc)
        s.trace = list(self.trace); s.cur_exc = self.cur_exc; s.hidden = dict(self.hidden)
        return s

    def H(self, region, sort):
        if region not in self.heap:
            self.heap[region] = z3.Const(self.prefix + "!" + region, z3.ArraySort(Ref, sort))
            if State.hook: State.hook(region, self.heap[region])
        return self.heap[region]

    hook = None

    def setH(self, region, arr):
        self.heap[region] = arr


EXC_INFO = TupT([RefT("TypeObj"), RefT("BaseException"), RefT("TracebackObj")])


class Engine:
    def __init__(self, reg: Registry, repo="/repo", timeout_ms=4000):
        self.reg = reg
        self.repo = repo
        self.obls = []
        self._n = 0
        self.timeout_ms = timeout_ms
        self.cur_contract = None
        self._fresh_log = None
        self.old = None
        self.loop_ids = {}
        self.axioms = []          # global hypotheses (definitions of fresh arrays, spec-function axioms)
        self.warnings = []
        self._wf_regions = set()
        State.hook = self.region_created

    def region_created(self, region, arr, alloc=None, sink=None):
        """well-formedness of a freshly introduced region: sequence lengths are >= 0, and the heap is closed: every
        object stored in it is allocated (w.r.t. `alloc`, default: the initial allocation set) or None"""
        key = str(arr)
        if region == "alloc" or key in self._wf_regions: return
        self._wf_regions.add(key)
        sink = self.axioms if sink is None else sink
        if alloc is None:
            alloc = z3.Const("H0!alloc", z3.ArraySort(Ref, B))
            if "H0!alloc" not in self._wf_regions:
                self._wf_regions.add("H0!alloc"); self.axioms.append(alloc[NULL])
        r = z3.Const("wf_r", Ref)
        rng = arr.sort().range()
        if region.startswith("seq:"):
            sink.append(z3.ForAll([r], rng.accessor(0, 0)(arr[r]) >= 0))
            if rng.accessor(0, 1).range().range() == Ref:
                i = z3.Const("wf_i", I)
                sink.append(z3.ForAll([r, i], alloc[rng.accessor(0, 1)(arr[r])[i]]))
        elif rng == Ref:
            sink.append(z3.ForAll([r], alloc[arr[r]]))
        elif region.startswith("val:") and rng.range() == Ref:
            k = z3.Const("wf_k", rng.domain())
            sink.append(z3.ForAll([r, k], alloc[arr[r][k]]))
        elif region.startswith("set:") and rng.domain() == Ref:
            x = z3.Const("wf_x", Ref)
            sink.append(z3.ForAll([r, x], z3.Implies(arr[r][x], alloc[x])))

    # ------------------------------------------------------------------ utilities
    def fresh(self, name, sort):
        self._n += 1
        c = z3.Const("%s!%d" % (name, self._n), sort)
        if self._fresh_log is not None: self._fresh_log.append(c)
        return c

    def fresh_sv(self, name, ty):
        v = self.fresh(name, ty.sort)
        return SV(v, ty)

    def ptype(self, s):
        return s if isinstance(s, Ty) else parse_type(s)

    def feasible(self, st, extra=()):
        """cheap pruning: only the quantifier-free hypotheses take part (sound: a superset of paths is kept)"""
        s = z3.Solver(); s.set("timeout", 1500)
        for f in itertools.chain(self.axioms, st.pc, extra):
            if not has_quant(f): s.add(f)
        return s.check() != z3.unsat

    def assume(self, st, f):
        """add a hypothesis, split into its conjuncts (ground conjuncts then take part in feasibility pruning)"""
        if z3.is_and(f):
            for ch in f.children(): self.assume(st, ch)
        else:
            st.pc.append(f)

    def oblige(self, st, kind, label, goal, line=None, text=None):
        self.obls.append({"kind": kind, "label": label, "hyps": list(self.axioms) + list(st.pc), "goal": goal,
                          "trace": list(st.trace), "line": line, "text": text})

    # ------------------------------------------------------------------ heap access
    def field_region(self, cls, field):
        t = self.reg.field_type(cls, field)
        if t is None:
            raise Unsupported("no declared field %s.%s" % (cls, field))
        ov = (getattr(self.cur_contract, "field_types", None) or {}).get(cls + "." + field)
        if ov is not None:
            # a contract may instantiate a generic container field (e.g. CustomChainMap.maps) at a more specific element
            # type; the heap region is determined by the sort, which must be the same
            if self.ptype(ov).sort != self.ptype(t).sort: raise Unsupported("field_types override changes the sort of %s.%s" % (cls, field))
            t = ov
        return "f:" + field, self.ptype(t)

    def get_field(self, st, obj: SV, field):
        if field == "nodes" and obj.ty.sort == Ref and isinstance(self.content_type(obj), GraphT):
            return obj        # G.nodes: a live view; iteration / membership are those of the graph itself
        if field == "edges" and obj.ty.sort == Ref and isinstance(self.content_type(obj), GraphT):
            return SV(obj.v, T.EdgeViewT(self.content_type(obj)))
        if not isinstance(obj.ty, RefT):
            raise Unsupported("attribute %s on %s" % (field, obj.ty))
        cc = self.reg.class_const(obj.ty.cls, field)
        if cc is not None:
            return self.const(cc)
        if field == "__class__":
            return SV(z3.Function("class_of", Ref, Ref)(obj.v), RefT("ClassObj"))
        region, fty = self.field_region(obj.ty.cls, field)
        arr = st.H(region, fty.sort)
        val = arr[obj.v]
        if fty.sort == Ref and (isinstance(fty, (ListT, SetT, DictT, GraphT)) or self.content_type(SV(val, fty)) is not None):
            # standing assumption: a field typed as a container is never None
            k = ("nn", val.get_id())
            if k not in self._wf_regions:
                self._wf_regions.add(k); self._keep = getattr(self, "_keep", []); self._keep.append(val)
                self.axioms.append(val != NULL)
        return SV(val, fty)

    def set_field(self, st, obj: SV, field, val: SV):
        region, fty = self.field_region(obj.ty.cls, field)
        arr = st.H(region, fty.sort)
        st.setH(region, z3.Store(arr, obj.v, self.coerce(val, fty, st).v))

    def content_type(self, sv: SV):
        """Container type of a value: its own type, or the declared content of a class that subclasses a container."""
        if isinstance(sv.ty, (ListT, SetT, DictT, GraphT)): return sv.ty
        if isinstance(sv.ty, RefT):
            c = self.reg.classes.get(sv.ty.cls)
            seen = set()
            while c is not None and c.name not in seen:
                seen.add(c.name)
                if c.content: return self.ptype(c.content)
                nxt = None
                for b in c.bases:
                    if b in self.reg.classes: nxt = self.reg.classes[b]; break
                c = nxt
        return None

    def seq_of(self, st, sv: SV):
        """(SeqT, z3 seq value) of a sequence-like value."""
        if isinstance(sv.ty, SeqT): return sv.ty, sv.v
        ct = self.content_type(sv)
        if isinstance(ct, ListT):
            sq = ct.seqty
            return sq, st.H(ct.region, sq.sort)[sv.v]
        if isinstance(ct, DictT) and ct.ordered:
            sq = SeqT(ct.k)
            return sq, st.H(ct.key_region, sq.sort)[sv.v]
        raise Unsupported("not a sequence: %s" % sv.ty)

    def set_seq(self, st, sv: SV, seqval):
        ct = self.content_type(sv)
        sq = ct.seqty
        st.setH(ct.region, z3.Store(st.H(ct.region, sq.sort), sv.v, seqval))

    def set_of(self, st, sv: SV):
        """(elem Ty, z3 Array(elem,Bool)) membership view of set / dict keys / graph nodes."""
        ct = self.content_type(sv)
        if isinstance(ct, SetT): return ct.elem, st.H(ct.region, z3.ArraySort(ct.elem.sort, B))[sv.v]
        if isinstance(ct, DictT): return ct.k, st.H(ct.dom_region, z3.ArraySort(ct.k.sort, B))[sv.v]
        if isinstance(ct, GraphT): return ct.elem, st.H(ct.node_region, z3.ArraySort(ct.elem.sort, B))[sv.v]
        raise Unsupported("not a set-like: %s" % sv.ty)

    def put_set(self, st, sv: SV, arr):
        ct = self.content_type(sv)
        if isinstance(ct, SetT): r, e = ct.region, ct.elem
        elif isinstance(ct, DictT): r, e = ct.dom_region, ct.k
        elif isinstance(ct, GraphT): r, e = ct.node_region, ct.elem
        else: raise Unsupported("put_set on %s" % sv.ty)
        st.setH(r, z3.Store(st.H(r, z3.ArraySort(e.sort, B)), sv.v, arr))

    def dict_val(self, st, sv: SV):
        ct = self.content_type(sv)
        return ct, st.H(ct.val_region, z3.ArraySort(ct.k.sort, ct.v.sort))[sv.v]

    def put_dict_val(self, st, sv: SV, arr):
        ct = self.content_type(sv)
        st.setH(ct.val_region, z3.Store(st.H(ct.val_region, z3.ArraySort(ct.k.sort, ct.v.sort)), sv.v, arr))

    def edges_of(self, st, sv: SV):
        ct = self.content_type(sv)
        es = z3.ArraySort(ct.elem.sort, z3.ArraySort(ct.elem.sort, B))
        return ct, st.H(ct.edge_region, es)[sv.v]

    def put_edges(self, st, sv: SV, arr):
        ct = self.content_type(sv)
        es = z3.ArraySort(ct.elem.sort, z3.ArraySort(ct.elem.sort, B))
        st.setH(ct.edge_region, z3.Store(st.H(ct.edge_region, es), sv.v, arr))

    # ------------------------------------------------------------------ sequences (value level)
    def seq_mk(self, sq: SeqT, n, arr): return sq.mk(n, arr)

    def seq_define(self, sq: SeqT, n, elt_fn, hint="sq"):
        """A fresh sequence value of length n whose i-th element is elt_fn(i) (definition added as axiom to pc)."""
        arr = self.fresh(hint, z3.ArraySort(I, sq.elem.sort))
        i = self.fresh("i", I)
        ax = z3.ForAll([i], z3.Implies(z3.And(0 <= i, i < n), arr[i] == elt_fn(i)))
        return sq.mk(n, arr), ax

    def seq_eq(self, sq: SeqT, a, b):
        i = self.fresh("e", I)
        return z3.And(sq.len(a) == sq.len(b),
                      z3.ForAll([i], z3.Implies(z3.And(0 <= i, i < sq.len(a)), sq.arr(a)[i] == sq.arr(b)[i])))

    def seq_contains(self, sq: SeqT, a, x):
        i = self.fresh("c", I)
        if isinstance(sq.elem, SeqT):        # elements that are sequences compare extensionally
            return z3.Exists([i], z3.And(0 <= i, i < sq.len(a), self.seq_eq(sq.elem, sq.arr(a)[i], x)))
        return z3.Exists([i], z3.And(0 <= i, i < sq.len(a), sq.arr(a)[i] == x))

    # ------------------------------------------------------------------ coercion / truthiness / equality
    def coerce(self, sv: SV, ty: Ty, st=None):
        if sv.ty == ty: return sv
        if sv.ty is NONE:
            if ty.sort == Ref: return SV(NULL, ty)
            if ty is VAL: return SV(VNONE, ty)
            if ty is STR: return SV(SNONE, ty)
            if isinstance(ty, PathT): return SV(ty.mk(z3.IntVal(0), z3.K(I, EPS)), ty)
        if sv.ty.sort == ty.sort:
            return SV(sv.v, ty)
        if isinstance(ty, SeqT) and isinstance(sv.ty, TupT) and all(t.sort == ty.elem.sort for t in sv.ty.items):
            arr = z3.K(I, sv.ty.get(sv.v, 0)) if sv.ty.items else z3.K(I, self.fresh("dflt", ty.elem.sort))
            for i in range(len(sv.ty.items)): arr = z3.Store(arr, i, sv.ty.get(sv.v, i))
            return SV(ty.mk(z3.IntVal(len(sv.ty.items)), arr), ty)
        if isinstance(ty, SeqT) and isinstance(sv.ty, ListT) and st is not None and sv.ty.elem.sort == ty.elem.sort:
            return SV(self.seq_of(st, sv)[1], ty)
        if isinstance(ty, SetVT):
            x = self.fresh("sv", ty.elem.sort)
            if isinstance(sv.ty, TupT) and all(t.sort == ty.elem.sort for t in sv.ty.items):
                return SV(z3.Lambda([x], z3.Or(*[x == sv.ty.get(sv.v, i) for i in range(len(sv.ty.items))])), ty)
            if isinstance(sv.ty, SeqT) and sv.ty.elem.sort == ty.elem.sort:
                i = self.fresh("si", I)
                return SV(z3.Lambda([x], z3.Exists([i], z3.And(0 <= i, i < sv.ty.len(sv.v), sv.ty.arr(sv.v)[i] == x))), ty)
            if st is not None and sv.ty.sort == Ref and isinstance(self.content_type(sv), (SetT, DictT, GraphT)):
                e, m = self.set_of(st, sv)
                if e.sort == ty.elem.sort: return SV(m, ty)
            if st is not None and sv.ty.sort == Ref and isinstance(self.content_type(sv), ListT):
                sq, v = self.seq_of(st, sv); i = self.fresh("si", I)
                return SV(z3.Lambda([x], z3.Exists([i], z3.And(0 <= i, i < sq.len(v), sq.arr(v)[i] == x))), ty)
        if ty is NODE and sv.ty is RNODE: return SV(T.RNode.nd_node(sv.v), NODE)    # meaningful for nd(...) members only
        if ty is RNODE and sv.ty is NODE: return SV(T.RNode.nd(sv.v), RNODE)
        if ty is RNODE and sv.ty.sort == Ref: return SV(T.RNode.rf(sv.v), RNODE)
        if sv.ty is NONE and isinstance(ty, TupT) and all(t.sort == Ref for t in ty.items):
            return SV(ty.mk(*[NULL for _ in ty.items]), ty)
        if ty is VAL:
            return SV(self.inject(sv), VAL)
        raise Unsupported("cannot coerce %s to %s" % (sv.ty, ty))

    def inject(self, sv):
        """Uninterpreted injection of a typed value into Val (user values are opaque)."""
        f = z3.Function("inj_" + T._sname(sv.ty.sort), sv.ty.sort, Val)
        return f(sv.v)

    def truth(self, sv: SV, st):
        t = sv.ty
        if t is BOOL: return sv.v
        if t is INT: return sv.v != 0
        if t is NONE: return z3.BoolVal(False)
        if isinstance(t, PathT):
            return z3.And(t.len(sv.v) >= 1, z3.Not(z3.And(t.len(sv.v) == 1, t.arr(sv.v)[0] == EPS)))
        if isinstance(t, SeqT): return t.len(sv.v) > 0
        ct = self.content_type(sv) if t.sort == Ref else None
        # (fields / parameters typed as containers are assumed non-None; results of dict.get() may be None)
        if isinstance(ct, ListT):
            sq, v = self.seq_of(st, sv)
            return z3.And(sv.v != NULL, sq.len(v) > 0)
        if isinstance(ct, (SetT, DictT, GraphT)):
            e, m = self.set_of(st, sv)
            x = self.fresh("m", e.sort)
            return z3.And(sv.v != NULL, z3.Exists([x], m[x]))
        if t.sort == Ref: return sv.v != NULL
        if t is VAL:
            tr = z3.Function("truthy", Val, B)
            return z3.And(sv.v != VNONE, tr(sv.v))
        if t is STR:
            tr = z3.Function("str_truthy", Str, B)
            return z3.And(sv.v != SNONE, tr(sv.v))
        if isinstance(t, TupT):
            if t.sort == EXC_INFO.sort: return t.get(sv.v, 0) != NULL     # None is encoded as (null, null, null)
            return z3.BoolVal(len(t.items) > 0)
        raise Unsupported("truthiness of %s" % t)

    def equal(self, a: SV, b: SV, st, identity=False):
        if a.ty is NONE and b.ty is NONE: return z3.BoolVal(True)
        if a.py is not None and b.py is not None: return z3.BoolVal(a.py == b.py)
        if a.ty is NONE: a = self.coerce(a, b.ty)
        if b.ty is NONE: b = self.coerce(b, a.ty)
        if isinstance(a.ty, PathT) and isinstance(b.ty, PathT):
            return self.seq_eq(a.ty, a.v, b.v)
        if isinstance(a.ty, SeqT) and isinstance(b.ty, SeqT) and a.ty.sort == b.ty.sort:
            return self.seq_eq(a.ty, a.v, b.v)
        if not identity and isinstance(a.ty, ListT) and isinstance(b.ty, (ListT, SeqT)):
            sa, va = self.seq_of(st, a); sb, vb = self.seq_of(st, b)
            return self.seq_eq(sa, va, vb)
        if a.ty.sort != b.ty.sort:
            if a.ty is VAL: return a.v == self.inject(b)
            if b.ty is VAL: return self.inject(a) == b.v
            return z3.BoolVal(False) if identity else self._uneq(a, b)
        return a.v == b.v

    def _uneq(self, a, b):
        raise Unsupported("comparison of %s and %s" % (a.ty, b.ty))

    # ================================================================== expressions (code mode)
    # generators yielding (state, SV | Exc)
    def ev(self, n, st):
        m = getattr(self, "ev_" + type(n).__name__, None)
        if m is None:
            raise Unsupported("expression %s at line %s" % (type(n).__name__, getattr(n, "lineno", "?")))
        yield from m(n, st)

    def evs(self, ns, st, acc=()):
        if not ns:
            yield st, list(acc); return
        for s1, v in self.ev(ns[0], st):
            if isinstance(v, Exc):
                yield s1, v
            else:
                yield from self.evs(ns[1:], s1, acc + (v,))

    def ev_Constant(self, n, st):
        yield st, self.const(n.value)

    def const(self, v):
        if v is None: return SV(NULL, NONE)
        if isinstance(v, bool): return SV(z3.BoolVal(v), BOOL, py=v)
        if isinstance(v, int): return SV(z3.IntVal(v), INT)
        if isinstance(v, str): return SV(self.strconst(v), STR, py=v)
        raise Unsupported("constant %r" % (v,))

    def strconst(self, s):
        c = z3.Const("str!%s" % s.encode().hex()[:40], Str)
        self._strs = getattr(self, "_strs", {})
        if s not in self._strs:
            for o, oc in self._strs.items():
                self.axioms.append(c != oc)
            self.axioms.append(c != SNONE)
            self._strs[s] = c
        return c

    def ev_Name(self, n, st):
        if n.id in st.loc:
            yield st, st.loc[n.id]; return
        if n.id in self.reg.consts:
            yield st, self.const(self.reg.consts[n.id]); return
        if n.id in self.reg.globals:
            yield st, self.global_obj(n.id); return
        if n.id in self.reg.classes:          # a class used as a value
            c = z3.Const("classobj_" + n.id, Ref)
            if ("co", n.id) not in self._wf_regions:
                self._wf_regions.add(("co", n.id)); self.axioms.append(c != NULL)
            yield st, SV(c, RefT("ClassObj")); return
        raise Unsupported("unbound name %s at line %s" % (n.id, n.lineno))

    def global_obj(self, name):
        ty = self.ptype(self.reg.globals[name])
        c = z3.Const("global_" + name, ty.sort)
        if ty.sort == Ref and ("g", name) not in self._wf_regions:
            self._wf_regions.add(("g", name))
            self.axioms.append(c != NULL); self.axioms.append(z3.Const("H0!alloc", z3.ArraySort(Ref, B))[c])
        return SV(c, ty)

    def ev_Attribute(self, n, st):
        if isinstance(n.value, ast.Name) and n.value.id not in st.loc and (n.value.id + "." + n.attr) in self.reg.consts:
            yield st, self.const(self.reg.consts[n.value.id + "." + n.attr]); return
        for s1, o in self.ev(n.value, st):
            if isinstance(o, Exc): yield s1, o; continue
            yield s1, self.get_field(s1, o, n.attr)

    def ev_UnaryOp(self, n, st):
        for s1, v in self.ev(n.operand, st):
            if isinstance(v, Exc): yield s1, v; continue
            if isinstance(n.op, ast.Not): yield s1, SV(z3.Not(self.truth(v, s1)), BOOL)
            elif isinstance(n.op, ast.USub): yield s1, SV(-v.v, INT)
            else: raise Unsupported("unary op")

    def ev_BoolOp(self, n, st):
        # short-circuit: fork only when a later operand can have effects/raise; otherwise encode as a term
        if all(self.is_simple(v) for v in n.values):
            for s1, vs in self.evs(n.values, st):
                if isinstance(vs, Exc): yield s1, vs; continue
                if all(v.ty is BOOL for v in vs):
                    f = z3.And if isinstance(n.op, ast.And) else z3.Or
                    yield s1, SV(f(*[v.v for v in vs]), BOOL)
                else:
                    # value-returning and/or: result is the deciding operand; keep only truthiness-safe common type
                    res = vs[-1]
                    for v in reversed(vs[:-1]):
                        c = self.truth(v, s1)
                        if v.ty.sort != res.ty.sort:
                            # `x or DEFAULT` with an opaque x: both operands as opaque values
                            if v.ty is VAL or res.ty is VAL or v.ty is NONE or res.ty is NONE:
                                v = SV(self.inject(v) if v.ty is not VAL else v.v, VAL) if v.ty is not NONE else SV(VNONE, VAL)
                                res = SV(self.inject(res) if res.ty is not VAL else res.v, VAL) if res.ty is not NONE else SV(VNONE, VAL)
                            else:
                                raise Unsupported("and/or over different types")
                        res = SV(z3.If(c, res.v, v.v) if isinstance(n.op, ast.And) else z3.If(c, v.v, res.v), res.ty)
                    yield s1, res
            return
        def go(i, s):
            for s1, v in self.ev(n.values[i], s):
                if isinstance(v, Exc) or i == len(n.values) - 1:
                    yield s1, v; continue
                c = self.truth(v, s1)
                cont, stop = (c, z3.Not(c)) if isinstance(n.op, ast.And) else (z3.Not(c), c)
                for cond, k in ((cont, True), (stop, False)):
                    s2 = s1.copy(); s2.pc.append(cond)
                    if not self.feasible(s2): continue
                    s2.trace.append("L%s:%s%d%s" % (n.lineno, "and" if isinstance(n.op, ast.And) else "or", i, "+" if k else "-"))
                    if k: yield from go(i + 1, s2)
                    else: yield s2, v
        yield from go(0, st)

    def is_simple(self, n):
        """Expression that cannot raise or have effects (so it may be evaluated eagerly as a term)."""
        if isinstance(n, (ast.Constant, ast.Name)): return True
        if isinstance(n, ast.Attribute): return self.is_simple(n.value)
        if isinstance(n, ast.UnaryOp): return self.is_simple(n.operand)
        if isinstance(n, ast.BoolOp): return all(self.is_simple(v) for v in n.values)
        if isinstance(n, ast.Compare):
            return all(isinstance(o, (ast.Is, ast.IsNot, ast.Eq, ast.NotEq, ast.Lt, ast.LtE, ast.Gt, ast.GtE)) for o in n.ops) \
                and self.is_simple(n.left) and all(self.is_simple(c) for c in n.comparators)
        return False

    def ev_IfExp(self, n, st):
        for s1, c in self.ev(n.test, st):
            if isinstance(c, Exc): yield s1, c; continue
            cond = self.truth(c, s1)
            for cc, br, tg in ((cond, n.body, "T"), (z3.Not(cond), n.orelse, "F")):
                s2 = s1.copy(); s2.pc.append(cc)
                if not self.feasible(s2): continue
                s2.trace.append("L%s:ifexp%s" % (n.lineno, tg))
                yield from self.ev(br, s2)

    def ev_Compare(self, n, st):
        if len(n.ops) != 1:
            # a < b < c
            parts = []
            left = n.left
            for op, c in zip(n.ops, n.comparators):
                parts.append(ast.Compare(left=left, ops=[op], comparators=[c], lineno=n.lineno, col_offset=0)); left = c
            yield from self.ev(ast.BoolOp(op=ast.And(), values=parts, lineno=n.lineno, col_offset=0), st); return
        for s1, vs in self.evs([n.left, n.comparators[0]], st):
            if isinstance(vs, Exc): yield s1, vs; continue
            a, b = vs
            yield from self.compare(n.ops[0], a, b, s1, n)

    def compare(self, op, a, b, st, n=None):
        if isinstance(op, (ast.Eq, ast.Is)):
            yield st, SV(self.equal(a, b, st, identity=isinstance(op, ast.Is)), BOOL)
        elif isinstance(op, (ast.NotEq, ast.IsNot)):
            yield st, SV(z3.Not(self.equal(a, b, st, identity=isinstance(op, ast.IsNot))), BOOL)
        elif isinstance(op, (ast.Lt, ast.LtE, ast.Gt, ast.GtE)):
            if a.ty is not INT or b.ty is not INT: raise Unsupported("ordering on %s" % a.ty)
            r = {ast.Lt: a.v < b.v, ast.LtE: a.v <= b.v, ast.Gt: a.v > b.v, ast.GtE: a.v >= b.v}[type(op)]
            yield st, SV(r, BOOL)
        elif isinstance(op, (ast.In, ast.NotIn)):
            r = self.contains(b, a, st)
            yield st, SV(z3.Not(r) if isinstance(op, ast.NotIn) else r, BOOL)
        else:
            raise Unsupported("comparison op")

    def contains(self, cont: SV, x: SV, st):
        if isinstance(cont.ty, SetVT):
            return cont.v[self.coerce(x, cont.ty.elem, st).v]
        if isinstance(cont.ty, SeqT):
            return self.seq_contains(cont.ty, cont.v, self.coerce(x, cont.ty.elem).v)
        ct = self.content_type(cont)
        if isinstance(ct, ListT):
            sq, v = self.seq_of(st, cont)
            return self.seq_contains(sq, v, self.coerce(x, sq.elem).v)
        if isinstance(ct, (SetT, DictT, GraphT)):
            e, m = self.set_of(st, cont)
            return m[self.coerce(x, e).v]
        raise Unsupported("'in' on %s" % cont.ty)

    def ev_BinOp(self, n, st):
        for s1, vs in self.evs([n.left, n.right], st):
            if isinstance(vs, Exc): yield s1, vs; continue
            a, b = vs
            yield s1, self.binop(n.op, a, b, s1, n)

    def binop(self, op, a, b, st, n=None):
        if a.ty is INT and b.ty is INT:
            if isinstance(op, ast.Add): return SV(a.v + b.v, INT)
            if isinstance(op, ast.Sub): return SV(a.v - b.v, INT)
            if isinstance(op, ast.Mult): return SV(a.v * b.v, INT)
            if isinstance(op, ast.FloorDiv): return SV(a.v / b.v, INT)     # obligation b != 0 not modelled: see assumptions
            if isinstance(op, ast.Mod): return SV(a.v % b.v, INT)
            if isinstance(op, ast.BitAnd):
                f = z3.Function("bitand", I, I, I); return SV(f(a.v, b.v), INT)
        if isinstance(op, ast.Add) and isinstance(a.ty, TupT) and isinstance(b.ty, SeqT):
            a = self.coerce(a, b.ty, st)
        if isinstance(op, ast.Add) and isinstance(b.ty, TupT) and isinstance(a.ty, SeqT):
            b = self.coerce(b, a.ty, st)
        if isinstance(op, ast.Add) and isinstance(a.ty, SeqT) and isinstance(b.ty, SeqT) and a.ty.sort == b.ty.sort:
            return self.seq_concat(a.ty, a.v, b.v, st)
        if isinstance(op, ast.Mult) and a.ty is STR and b.ty is INT:
            return SV(self.str_repeat(a.v, b.v), STR)
        if isinstance(op, (ast.Add, ast.Mod)) and (a.ty is STR or b.ty is STR):
            # concatenation / formatting as an uninterpreted FUNCTION of its operands (the text itself is dropped)
            a2 = a if a.ty is STR else SV(z3.Function("str_of_" + T._sname(a.ty.sort), a.ty.sort, Str)(a.v), STR)
            b2 = b if b.ty is STR else SV(z3.Function("str_of_" + T._sname(b.ty.sort), b.ty.sort, Str)(b.v), STR)
            f = z3.Function("str_concat" if isinstance(op, ast.Add) else "str_format", Str, Str, Str)
            r = SV(f(a2.v, b2.v), STR)
            if not getattr(self, "_concat_ax", False):
                self._concat_ax = True
                x, y = z3.Consts("cc_x cc_y", Str)
                for g in ("str_concat", "str_format"):
                    gf = z3.Function(g, Str, Str, Str)
                    self.axioms.append(z3.ForAll([x, y], gf(x, y) != SNONE))
            return r
        raise Unsupported("binop %s on %s,%s line %s" % (type(op).__name__, a.ty, b.ty, getattr(n, "lineno", "?")))

    def str_repeat(self, s, n):
        """s * n as an uninterpreted function; trusted facts only for the one-character string ".":
        len("." * n) == n (n >= 0), "." * n injective in n, "." * 1 == "." """
        f = z3.Function("str_repeat", Str, I, Str); ln = z3.Function("str_len", Str, I)
        if not getattr(self, "_rep_ax", False):
            self._rep_ax = True
            dot = self.strconst("."); i, j = z3.Ints("rp_i rp_j"); x = z3.Const("rp_x", Str)
            self.axioms.append(z3.ForAll([i], z3.Implies(i >= 0, ln(f(dot, i)) == i)))
            self.axioms.append(z3.ForAll([i], f(dot, i) != SNONE))
            self.axioms.append(f(dot, z3.IntVal(1)) == dot)
            self.axioms.append(z3.ForAll([x], ln(x) >= 0))
        return f(s, n)

    def seq_concat(self, sq, a, b, st):
        n = sq.len(a) + sq.len(b)
        v, ax = self.seq_define(sq, n, lambda i: z3.If(i < sq.len(a), sq.arr(a)[i], sq.arr(b)[i - sq.len(a)]), "cat")
        st.pc.append(ax)
        return SV(v, sq)

    def ev_Tuple(self, n, st):
        if any(isinstance(e, ast.Starred) for e in n.elts):
            # (x, *S): only consumed as an unordered collection -> pure set value {x} | S
            nodes = [e.value if isinstance(e, ast.Starred) else e for e in n.elts]
            for s1, vs in self.evs(nodes, st):
                if isinstance(vs, Exc): yield s1, vs; continue
                ety = None
                for e, v in zip(n.elts, vs):
                    if isinstance(e, ast.Starred):
                        ety = v.ty.elem if isinstance(v.ty, SetVT) else self.set_of(s1, v)[0]
                if ety is None: raise Unsupported("starred tuple")
                x = self.fresh("tx", ety.sort); parts = []
                for e, v in zip(n.elts, vs):
                    if isinstance(e, ast.Starred):
                        m = v.v if isinstance(v.ty, SetVT) else self.set_of(s1, v)[1]
                        parts.append(m[x])
                    else:
                        parts.append(x == self.coerce(v, ety, s1).v)
                arr = self.fresh("tupset", z3.ArraySort(ety.sort, B))
                s1.pc.append(z3.ForAll([x], arr[x] == z3.Or(*parts)))
                yield s1, SV(arr, SetVT(ety))
            return
        for s1, vs in self.evs(n.elts, st):
            if isinstance(vs, Exc): yield s1, vs; continue
            yield s1, self.mk_tuple(vs, s1)

    def mk_tuple(self, vs, st):
        # node forms: (cells, key) and (cells,)
        if len(vs) == 2 and vs[0].ty.sort == Ref and vs[1].ty is KEY and self.is_nodeobj(vs[0]):
            return SV(Node.item(vs[0].v, vs[1].v), NODE)
        if len(vs) == 1 and vs[0].ty.sort == Ref and self.is_nodeobj(vs[0]):
            return SV(Node.objnode(vs[0].v), NODE)
        t = TupT([v.ty if v.ty is not NONE else RefT("object") for v in vs])
        T.register_sort(t.sort)
        return SV(t.mk(*[v.v for v in vs]), t)

    def is_nodeobj(self, sv):
        return isinstance(sv.ty, RefT) and self.reg.is_subclass(sv.ty.cls, "NodeObj")

    def ev_List(self, n, st):
        for s1, vs in self.evs(n.elts, st):
            if isinstance(vs, Exc): yield s1, vs; continue
            if not vs:
                from .intrinsics import decl_local_type
                dt = decl_local_type(self, n)
                r = self.alloc(s1, dt, "list")
                self.set_seq(s1, r, dt.seqty.mk(z3.IntVal(0), z3.K(I, self.fresh("dflt", dt.elem.sort))))
                yield s1, r; continue
            ety = vs[0].ty
            r = self.alloc(s1, ListT(ety))
            arr = z3.K(I, vs[0].v)
            for i, v in enumerate(vs): arr = z3.Store(arr, i, self.coerce(v, ety).v)
            self.set_seq(s1, r, SeqT(ety).mk(z3.IntVal(len(vs)), arr))
            yield s1, r

    def alloc(self, st, ty, hint="new"):
        """Fresh heap object distinct from every object reachable before (allocation counter ghost)."""
        r = self.fresh(hint, Ref)
        al = st.H("alloc", B)
        st.pc.append(z3.Not(al[r])); st.pc.append(r != NULL)
        st.setH("alloc", z3.Store(al, r, True))
        return SV(r, ty)

    def ev_Subscript(self, n, st):
        if isinstance(n.slice, ast.Slice):
            yield from self.ev_slice(n, st); return
        for s1, vs in self.evs([n.value, n.slice], st):
            if isinstance(vs, Exc): yield s1, vs; continue
            o, ix = vs
            yield from self.subscript(o, ix, s1, n)

    def static_int(self, sv):
        if sv.ty is INT and z3.is_int_value(sv.v): return sv.v.as_long()
        return None

    def eidx_of(self, st, gref, ct):
        es = ct.elem.sort
        return st.H(ct.eidx_region, z3.ArraySort(es, z3.ArraySort(es, I)))[gref]

    def subscript(self, o, ix, st, n):
        t = o.ty
        k = self.static_int(ix)
        if isinstance(o.py, tuple) and o.py and o.py[0] == "edge":
            if ix.py != "index": raise Unsupported("edge attribute %r" % (ix.py,))
            yield st, SV(self.eidx_of(st, o.v, o.ty.g)[o.py[1]][o.py[2]], INT); return
        if isinstance(t, T.EdgeViewT):
            # G.edges[(a, b)] -> the attribute dict of that edge (KeyError if there is no such edge)
            if not (isinstance(ix.ty, TupT) and len(ix.ty.items) == 2): raise Unsupported("edge key")
            a, b = ix.ty.get(ix.v, 0), ix.ty.get(ix.v, 1)
            ed = st.H(t.g.edge_region, z3.ArraySort(t.g.elem.sort, z3.ArraySort(t.g.elem.sort, B)))[o.v]
            res = SV(o.v, T.EdgeViewT(t.g)); res.py = ("edge", a, b)
            yield from self.fork_exc(st, ed[a][b], lambda s: res, "KeyError", n); return
        
        if o.py is not None and isinstance(o.py, str) and k is not None:
            yield st, self.const(o.py[k]); return
        if t is NODE:
            if k == 0:
                yield st, SV(z3.If(Node.is_item(o.v), Node.obj(o.v), Node.oobj(o.v)), RefT("NodeObj")); return
            if k == 1:
                ok = Node.is_item(o.v)
                yield from self.fork_exc(st, ok, lambda s: SV(Node.key(o.v), KEY), "IndexError", n); return
            raise Unsupported("node subscript")
        if isinstance(t, TupT):
            if k is None: raise Unsupported("tuple subscript with symbolic index")
            if k < 0: k += len(t.items)
            yield st, SV(t.get(o.v, k), t.items[k]); return
        if isinstance(t, SeqT) or isinstance(self.content_type(o), ListT):
            sq, v = self.seq_of(st, o)
            if ix.ty is not INT: raise Unsupported("sequence index type %s" % ix.ty)
            idx = z3.If(ix.v >= 0, ix.v, sq.len(v) + ix.v) if k is None else (z3.IntVal(k) if k >= 0 else sq.len(v) + k)
            ok = z3.And(0 <= idx, idx < sq.len(v))
            yield from self.fork_exc(st, ok, lambda s: SV(sq.arr(v)[idx], sq.elem), "IndexError", n); return
        ct = self.content_type(o)
        if isinstance(ct, DictT):
            key = self.coerce(ix, ct.k)
            e, dom = self.set_of(st, o)
            _, val = self.dict_val(st, o)
            yield from self.fork_exc(st, dom[key.v], lambda s: SV(val[key.v], ct.v), "KeyError", n); return
        raise Unsupported("subscript on %s (line %s)" % (t, n.lineno))

    def fork_exc(self, st, ok, mkval, exctag, n):
        """Fork: ok -> value; not ok -> exception edge of type exctag."""
        s_ok = st.copy(); s_ok.pc.append(ok)
        if self.feasible(s_ok):
            yield s_ok, mkval(s_ok)
        s_bad = st.copy(); s_bad.pc.append(z3.Not(ok))
        if self.feasible(s_bad):
            s_bad.trace.append("L%s:%s" % (getattr(n, "lineno", "?"), exctag))
            yield s_bad, Exc(exctag, self.alloc(s_bad, RefT(exctag), "exc").v, "line %s" % getattr(n, "lineno", "?"))

    def ev_slice(self, n, st):
        sl = n.slice
        if sl.step is not None: raise Unsupported("slice step")
        parts = [n.value] + [p for p in (sl.lower, sl.upper) if p is not None]
        for s1, vs in self.evs(parts, st):
            if isinstance(vs, Exc): yield s1, vs; continue
            o = vs[0]; rest = vs[1:]
            lo = rest.pop(0) if sl.lower is not None else None
            hi = rest.pop(0) if sl.upper is not None else None
            sq, v = self.seq_of(s1, o)
            ln = sq.len(v)
            def norm(x, dflt):
                if x is None: return dflt
                c = z3.If(x.v < 0, ln + x.v, x.v)
                return z3.If(c < 0, 0, z3.If(c > ln, ln, c))
            a = norm(lo, z3.IntVal(0)); b = norm(hi, ln)
            m = z3.If(b - a < 0, 0, b - a)
            if lo is None and sl.upper is not None:
                res = sq.mk(m, sq.arr(v))                     # prefix: same array, shorter length
            else:
                res, ax = self.seq_define(sq, m, lambda i: sq.arr(v)[i + a], "sl")
                s1.pc.append(ax)
            rty = sq if isinstance(o.ty, SeqT) else SeqT(sq.elem)
            if isinstance(o.ty, PathT): rty = o.ty
            yield s1, SV(res, rty)

    # ------------------------------------------------------------------ calls
    def ev_Call(self, n, st):
        from . import intrinsics
        yield from intrinsics.call(self, n, st)

    def ev_ListComp(self, n, st):
        from . import loops
        yield from loops.list_comp(self, n, st)

    def ev_Dict(self, n, st):
        if n.keys:
            # {"a": self.m1, "b": self.m2}: a static dispatch table of bound methods of `self` (self is never reassigned:
            # checked); looked up with a static key at the call  table[key](...)
            if all(isinstance(k, ast.Constant) and isinstance(k.value, str) for k in n.keys) and \
               all(isinstance(v, ast.Attribute) and isinstance(v.value, ast.Name) and v.value.id == "self" for v in n.values) and \
               "self" not in self.assigned_names(self.cur_fn.body):
                r = SV(NULL, NONE); r.py = {"__table__": {k.value: v for k, v in zip(n.keys, n.values)}}
                yield st, r; return
            raise Unsupported("non-empty dict display")
        from .intrinsics import decl_local_type
        dt = decl_local_type(self, n)
        r = self.alloc(st, dt, "dict"); self.put_set(st, r, z3.K(dt.k.sort, False))
        if dt.ordered:
            sq = SeqT(dt.k)
            st.setH(dt.key_region, z3.Store(st.H(dt.key_region, sq.sort), r.v, sq.mk(z3.IntVal(0), z3.K(I, self.fresh("dflt", dt.k.sort)))))
        yield st, r

    # ------------------------------------------------------------------ reachability (trusted axioms of Desc)
    def desc_fun(self, elem):
        es = elem.sort
        return z3.Function("Desc_" + T._sname(es), z3.ArraySort(es, z3.ArraySort(es, B)), es, z3.ArraySort(es, B))

    def desc_axioms(self, st, elem, ed, nodes, src):
        """Instantiate the axioms of Desc (reflexive, closed under edges, every other member has a predecessor in
        the set) for this (edge relation, source)."""
        D = self.desc_fun(elem)(ed, src)
        a, b = self.fresh("a", elem.sort), self.fresh("b", elem.sort)
        st.pc.append(D[src])
        st.pc.append(z3.ForAll([a, b], z3.Implies(z3.And(D[a], ed[a][b]), D[b])))
        st.pc.append(z3.ForAll([b], z3.Implies(z3.And(D[b], b != src), z3.Exists([a], z3.And(D[a], ed[a][b])))))

    def ev_JoinedStr(self, n, st):
        yield st, self.fresh_sv("fstr", STR)

    # ================================================================== statements
    # generators yielding (state, outcome); outcome None | ("return", SV) | ("raise", Exc) | ("break",) | ("continue",)
    def block(self, stmts, st):
        if not stmts:
            yield st, None; return
        for s1, out in self.stmt(stmts[0], st):
            if out is not None:
                yield s1, out
            else:
                yield from self.block(stmts[1:], s1)

    def stmt(self, n, st):
        m = getattr(self, "st_" + type(n).__name__, None)
        if m is None:
            raise Unsupported("statement %s at line %s" % (type(n).__name__, n.lineno))
        yield from m(n, st)

    def st_Pass(self, n, st): yield st, None
    def st_Break(self, n, st): yield st, ("break",)
    def st_Continue(self, n, st): yield st, ("continue",)
    def st_Import(self, n, st): yield st, None
    def st_ImportFrom(self, n, st): yield st, None

    def st_Expr(self, n, st):
        if isinstance(n.value, ast.Constant):
            yield st, None; return
        for s1, v in self.ev(n.value, st):
            yield s1, (("raise", v) if isinstance(v, Exc) else None)

    def st_Assign(self, n, st):
        if isinstance(n.targets[0], ast.Name):
            n.value._assign_target = n.targets[0].id
        for s1, v in self.ev(n.value, st):
            if isinstance(v, Exc): yield s1, ("raise", v); continue
            outs = [(s1, None)]
            for tgt in n.targets:
                nxt = []
                for s2, o in outs:
                    if o is not None: nxt.append((s2, o)); continue
                    nxt.extend(self.assign(tgt, v, s2))
                outs = nxt
            yield from outs

    def st_AnnAssign(self, n, st):
        if n.value is None: yield st, None; return
        for s1, v in self.ev(n.value, st):
            if isinstance(v, Exc): yield s1, ("raise", v); continue
            yield from self.assign(n.target, v, s1)

    def assign(self, tgt, v, st):
        """yields (state, outcome)"""
        if isinstance(tgt, ast.Name):
            dt = self.cur_contract.locals.get(tgt.id) if self.cur_contract else None
            if dt: v = self.coerce(v, self.ptype(dt), st)
            elif tgt.id in st.loc and v.ty is NONE: v = self.coerce(v, st.loc[tgt.id].ty, st)
            st.loc[tgt.id] = v
            yield st, None; return
        if isinstance(tgt, (ast.Tuple, ast.List)):
            if v.ty is NODE and len(tgt.elts) == 2:
                parts = [SV(Node.obj(v.v), RefT("NodeObj")), SV(Node.key(v.v), KEY)]
                st.pc.append(Node.is_item(v.v)) if False else None
            elif isinstance(v.ty, TupT) and len(v.ty.items) == len(tgt.elts):
                parts = [SV(v.ty.get(v.v, i), t) for i, t in enumerate(v.ty.items)]
            else:
                raise Unsupported("unpacking %s" % v.ty)
            outs = [(st, None)]
            for t, p in zip(tgt.elts, parts):
                nxt = []
                for s2, o in outs:
                    if o is not None: nxt.append((s2, o)); continue
                    nxt.extend(self.assign(t, p, s2))
                outs = nxt
            yield from outs; return
        if isinstance(tgt, ast.Attribute):
            for s1, o in self.ev(tgt.value, st):
                if isinstance(o, Exc): yield s1, ("raise", o); continue
                self.set_field(s1, o, tgt.attr, v)
                yield s1, None
            return
        if isinstance(tgt, ast.Subscript):
            for s1, vs in self.evs([tgt.value, tgt.slice], st):
                if isinstance(vs, Exc): yield s1, ("raise", vs); continue
                o, ix = vs
                ct = self.content_type(o)
                if isinstance(ct, DictT):
                    from . import intrinsics
                    intrinsics.dict_set(self, s1, o, ix, v)
                    yield s1, None
                elif isinstance(ct, ListT):
                    sq, sv_ = self.seq_of(s1, o)
                    idx = z3.If(ix.v >= 0, ix.v, sq.len(sv_) + ix.v)
                    ok = z3.And(0 <= idx, idx < sq.len(sv_))
                    def upd(s, o=o, sq=sq, sv_=sv_, idx=idx):
                        self.set_seq(s, o, sq.mk(sq.len(sv_), z3.Store(sq.arr(sv_), idx, self.coerce(v, sq.elem).v)))
                        return SV(NULL, NONE)
                    for s2, r in self.fork_exc(s1, ok, upd, "IndexError", tgt):
                        yield s2, (("raise", r) if isinstance(r, Exc) else None)
                else:
                    raise Unsupported("subscript store on %s" % o.ty)
            return
        raise Unsupported("assignment target %s" % type(tgt).__name__)

    def st_AugAssign(self, n, st):
        load = ast.copy_location(ast.BinOp(left=self.as_load(n.target), op=n.op, right=n.value), n)
        for s1, v in self.ev(load, st):
            if isinstance(v, Exc): yield s1, ("raise", v); continue
            yield from self.assign(n.target, v, s1)

    def as_load(self, t):
        import copy
        t2 = copy.deepcopy(t)
        for x in ast.walk(t2):
            if hasattr(x, "ctx"): x.ctx = ast.Load()
        return t2

    def st_If(self, n, st):
        for s1, c in self.ev(n.test, st):
            if isinstance(c, Exc): yield s1, ("raise", c); continue
            cond = self.truth(c, s1)
            for cc, body, tg in ((cond, n.body, "T"), (z3.Not(cond), n.orelse, "F")):
                s2 = s1.copy(); s2.pc.append(cc)
                if not self.feasible(s2): continue
                s2.trace.append("L%d:if%s" % (n.lineno - self.base_line, tg))
                yield from self.block(body, s2)

    def st_Assert(self, n, st):
        for s1, c in self.ev(n.test, st):
            if isinstance(c, Exc): yield s1, ("raise", c); continue
            cond = self.truth(c, s1)
            self.oblige(s1, "assert", "L%d" % (n.lineno - self.base_line), cond, n.lineno, ast.unparse(n.test))
            s1.pc.append(cond)
            yield s1, None

    def st_Return(self, n, st):
        if n.value is not None: n.value._assign_target = "@return"
        if n.value is None:
            yield st, ("return", SV(NULL, NONE)); return
        for s1, v in self.ev(n.value, st):
            yield s1, (("raise", v) if isinstance(v, Exc) else ("return", v))

    def st_Raise(self, n, st):
        if n.exc is None:
            if st.cur_exc is None: raise Unsupported("bare raise outside handler")
            yield st, ("raise", st.cur_exc); return
        if isinstance(n.exc, ast.Call) and isinstance(n.exc.func, ast.Name) and n.exc.func.id in self.reg.exc_parents:
            tag = n.exc.func.id
            # evaluate message arguments for their effects/exceptions only when not simple
            s1 = st
            e = Exc(tag, self.alloc(s1, RefT(tag), "exc").v, "line %s" % n.lineno)
            s1.trace.append("L%d:raise" % (n.lineno - self.base_line))
            yield s1, ("raise", e); return
        if isinstance(n.exc, ast.Name) and n.exc.id in self.reg.exc_parents:
            e = Exc(n.exc.id, self.alloc(st, RefT(n.exc.id), "exc").v, "line %s" % n.lineno)
            yield st, ("raise", e); return
        for s1, v in self.ev(n.exc, st):
            if isinstance(v, Exc): yield s1, ("raise", v); continue
            tag = v.ty.cls if isinstance(v.ty, RefT) and v.ty.cls in self.reg.exc_parents and v.ty.cls != "BaseException" else None
            s1.trace.append("L%d:raise" % (n.lineno - self.base_line))
            yield s1, ("raise", Exc(tag, v.v, "line %s" % n.lineno))

    def st_Try(self, n, st):
        def handlers(s1, e):
            """dispatch exception e raised in body/else to handlers; yields (state, outcome)"""
            remaining = [(s1, True)]
            for h in n.handlers:
                names = []
                if h.type is None: names = None
                elif isinstance(h.type, ast.Tuple): names = [x.id for x in h.type.elts]
                else: names = [h.type.id] if isinstance(h.type, ast.Name) else None
                if isinstance(h.type, ast.Attribute): names = [h.type.attr]
                nxt = []
                for s2, _ in remaining:
                    if names is None: verdict = "yes"
                    elif e.tag is None:
                        verdict = "yes" if any(x == "BaseException" for x in names) else "maybe"
                    elif any(self.reg.exc_isa(e.tag, x) for x in names): verdict = "yes"
                    else: verdict = "no"
                    if verdict in ("yes", "maybe"):
                        s3 = s2.copy()
                        s3.trace.append("L%d:except" % (h.lineno - self.base_line))
                        saved = s3.cur_exc
                        s3.cur_exc = e
                        if h.name:
                            s3.loc[h.name] = SV(e.ref, RefT(e.tag or "BaseException"))
                        for s4, o in self.block(h.body, s3):
                            s4.cur_exc = saved
                            yield s4, o
                    if verdict in ("no", "maybe"):
                        nxt.append((s2, True))
                remaining = nxt
                if not remaining: break
            for s2, _ in remaining:
                yield s2, ("raise", e)

        def with_finally(gen):
            for s1, o in gen:
                if not n.finalbody:
                    yield s1, o; continue
                for s2, o2 in self.block(n.finalbody, s1):
                    yield s2, (o2 if o2 is not None else o)

        def body():
            for s1, o in self.block(n.body, st):
                if o is None:
                    if n.orelse:
                        for s2, o2 in self.block(n.orelse, s1):
                            # exceptions in else are not handled by this try's handlers
                            yield s2, o2
                    else:
                        yield s1, None
                elif o[0] == "raise":
                    yield from handlers(s1, o[1])
                else:
                    yield s1, o
        yield from with_finally(body())

    # ------------------------------------------------------------------ loops
    def loop_index(self, n):
        return self.loop_ids[id(n)]

    def loop_spec(self, n):
        k = self.loop_index(n)
        sp = self.cur_contract.loops.get(k) if self.cur_contract else None
        if sp is None:
            raise Unsupported("loop %d at line %s has no invariant" % (k, n.lineno))
        return k, sp

    def assigned_names(self, body):
        names = set()
        for x in body:
            for y in ast.walk(x):
                if isinstance(y, ast.Name) and isinstance(y.ctx, (ast.Store, ast.Del)): names.add(y.id)
                if isinstance(y, ast.ExceptHandler) and y.name: names.add(y.name)
        return names

    def havoc_loop(self, st, k, sp, names, pre):
        """Havoc locals assigned in the body and the heap locations of the loop's modifies clause."""
        h = st.copy()
        for nm in sorted(names):
            if nm in h.loc:
                h.loc[nm] = self.fresh_sv("hv_" + nm, h.loc[nm].ty)
        al0 = h.H("alloc", B); al1 = self.fresh("alloc_lp", al0.sort()); r = self.fresh("r", Ref)
        h.pc.append(z3.ForAll([r], z3.Implies(al0[r], al1[r]))); h.setH("alloc", al1)
        frame = self.havoc_locs(h, pre, sp["modifies"], "lp%d" % k)
        return h, frame

    def havoc_locs(self, st, evalstate, locs, hint):
        """Store fresh values at each location (evaluated in evalstate); returns frame {region: [ref terms] | None(all)}"""
        from .specev import SpecEval
        frame = {}
        for loc in locs:
            for region, sort, ref in SpecEval(self, evalstate, self.old or evalstate, {}).locations(loc):
                al = st.H("alloc", B)
                if ref is None:
                    na = self.fresh(hint + "_" + region.replace(":", "_"), z3.ArraySort(Ref, sort))
                    st.setH(region, na)
                    self.region_created(region, na, al, st.pc)
                    frame[region] = None
                else:
                    fv = self.fresh(hint + "_v", sort)
                    tmp = self.fresh(hint + "_t", z3.ArraySort(Ref, sort))
                    facts = []
                    self.region_created(region, tmp, al, facts)
                    rr = z3.Const("wf_r", Ref)
                    for f in facts:      # instantiate the region facts for the single havocked location
                        body = f.body()
                        nvars = f.num_vars()
                        vs = [z3.Const("wf_q%d" % j, f.var_sort(j)) for j in range(nvars)]
                        inst = z3.substitute_vars(body, *reversed(vs))
                        inst = z3.substitute(inst, (vs[0], ref))
                        inst = z3.substitute(inst, (tmp[ref], fv))
                        rest = vs[1:]
                        st.pc.append(z3.ForAll(rest, inst) if rest else inst)
                    st.setH(region, z3.Store(st.H(region, sort), ref, fv))
                    if frame.get(region, []) is not None:
                        frame.setdefault(region, []).append(ref)
        return frame

    def check_frame(self, head: State, end: State, frame, kind, label, extra_regions=()):
        """Obligation: every region differs between head and end only at the framed locations."""
        for region in sorted(set(end.heap) | set(head.heap)):
            if region == "alloc": continue
            a = head.heap.get(region); b = end.heap.get(region)
            if a is None and b is None: continue
            if a is not None and b is not None and a.eq(b): continue
            if region in frame and frame[region] is None: continue
            arr = b if b is not None else a
            sort = arr.sort().range()
            a = head.H(region, sort); b = end.H(region, sort)
            r = self.fresh("fr", Ref)
            # freshly allocated objects are not part of the frame
            al = head.H("alloc", B)
            cond = [r != x for x in frame.get(region, [])]
            self.oblige(end, kind, "%s/frame[%s]" % (label, region),
                        z3.ForAll([r], z3.Implies(z3.And(al[r], *cond), a[r] == b[r])))

    def spec_inv(self, st, sp, env=None):
        from .specev import SpecEval
        full = dict(st.hidden); full.update(env or {})
        ev = SpecEval(self, st, self.old, full)
        return [(c, ev.bool(c.ast)) for c in sp["inv"]]

    def st_While(self, n, st):
        k, sp = self.loop_spec(n)
        names = self.assigned_names(n.body)
        for c, f in self.spec_inv(st, sp):
            self.oblige(st, "loop-entry", "loop%d/%s" % (k, c.label), f, n.lineno, c.text)
        h, frame = self.havoc_loop(st, k, sp, names, st)
        for c, f in self.spec_inv(h, sp): self.assume(h, f)
        if not self.feasible(h): return
        h.trace.append("loop%d" % k)
        head = h.copy()
        dec0 = None
        if sp.get("decreases"):
            from .specev import SpecEval
            dec0 = SpecEval(self, head, self.old, {}).term(ast.parse(sp["decreases"], mode="eval").body).v
        for s1, c in self.ev(n.test, h):
            if isinstance(c, Exc): yield s1, ("raise", c); continue
            cond = self.truth(c, s1)
            s_in = s1.copy(); s_in.pc.append(cond)
            if self.feasible(s_in):
                s_in.trace.append("loop%d:body" % k)
                for s2, o in self.block(n.body, s_in):
                    if o is None or o[0] == "continue":
                        for cl, f in self.spec_inv(s2, sp):
                            self.oblige(s2, "loop-preserve", "loop%d/%s" % (k, cl.label), f, n.lineno, cl.text)
                        self.check_frame(head, s2, frame, "loop-frame", "loop%d" % k)
                        if dec0 is not None:
                            from .specev import SpecEval
                            d1 = SpecEval(self, s2, self.old, {}).term(ast.parse(sp["decreases"], mode="eval").body).v
                            self.oblige(s2, "loop-decreases", "loop%d" % k, z3.And(dec0 >= 0, d1 < dec0), n.lineno, sp["decreases"])
                    elif o[0] == "break":
                        s2.trace.append("loop%d:break" % k)
                        yield s2, None
                    else:
                        yield s2, o
            s_out = s1.copy(); s_out.pc.append(z3.Not(cond))
            if self.feasible(s_out):
                s_out.trace.append("loop%d:exit" % k)
                if n.orelse:
                    yield from self.block(n.orelse, s_out)
                else:
                    yield s_out, None

    def st_For(self, n, st):
        from . import loops
        yield from loops.for_loop(self, n, st)

    def st_With(self, n, st):
        raise Unsupported("with statement at line %s" % n.lineno)

    def st_Delete(self, n, st):
        from . import intrinsics
        outs = [(st, None)]
        for t in n.targets:
            nxt = []
            for s1, o in outs:
                if o is not None: nxt.append((s1, o)); continue
                nxt.extend(intrinsics.delete(self, t, s1))
            outs = nxt
        yield from outs

    def st_FunctionDef(self, n, st):
        raise Unsupported("nested function definition at line %s" % n.lineno)

    # ================================================================== function-level driver
    def number_loops(self, fn):
        self.loop_ids = {}
        k = 0
        for x in ast.walk(fn):
            pass
        def visit(node):
            nonlocal k
            for ch in ast.iter_child_nodes(node):
                if isinstance(ch, (ast.For, ast.While)):
                    self.loop_ids[id(ch)] = k; k += 1
                if isinstance(ch, (ast.ListComp, ast.SetComp, ast.GeneratorExp, ast.DictComp)):
                    self.loop_ids[id(ch)] = k; k += 1
                visit(ch)
        visit(fn)

    def initial_state(self, c: Contract, fn):
        st = State("s0")
        for nm, ts in c.params.items():
            ty = self.ptype(ts)
            if nm in c.static:
                st.loc[nm] = self.const(c.static[nm]); continue      # the function is verified for this argument value
            st.loc[nm] = SV(z3.Const("arg_" + nm, ty.sort), ty)
            if isinstance(ty, SeqT):
                st.pc.append(ty.len(st.loc[nm].v) >= (1 if isinstance(ty, PathT) else 0))
            if ty.sort == Ref:
                # declared object parameters exist (allocated) before the call and are not None
                st.pc.append(st.H("alloc", B)[st.loc[nm].v])
                if nm not in getattr(c, "nullable", ()): st.pc.append(st.loc[nm].v != NULL)
        st.pc.append(z3.Not(st.H("alloc", B)[NULL])) if False else None
        return st

    def verify_function(self, c: Contract):
        """Symbolically execute the real function against its contract.  Returns list of obligations."""
        from .specev import SpecEval
        fn, seg, sha = find_function(self.repo, c.file, c.qual)
        self.cur_contract = c
        self.cur_fn = fn
        self.base_line = fn.lineno
        self.number_loops(fn)
        self.obls = []
        # parameters in the real signature must be covered by the contract
        real = [a.arg for a in fn.args.posonlyargs + fn.args.args + fn.args.kwonlyargs]
        if fn.args.vararg: real.append(fn.args.vararg.arg)
        if fn.args.kwarg: real.append(fn.args.kwarg.arg)
        missing = [p for p in real if p not in c.params]
        if missing:
            raise Unsupported("parameters %s of %s have no declared type" % (missing, c.qual))
        extra = [p for p in c.params if p not in real]
        if extra:
            raise Unsupported("contract of %s names parameters %s the function does not have" % (c.qual, extra))
        st0 = self.initial_state(c, fn)
        self.old = st0
        pre = SpecEval(self, st0, st0, {})
        for cl in c.requires:
            self.assume(st0, pre.bool(cl.ast))
        if getattr(c, "ambient_exc", False):
            st0.cur_exc = Exc(None, z3.Const("ambient_exc", Ref), "ambient")
            st0.pc.append(st0.cur_exc.ref != NULL)
        self.old = st0.copy()
        self.n_paths = 0
        self.exits = []
        if not self.feasible(st0):
            self.oblige(st0, "vacuity", "requires-satisfiable", z3.BoolVal(False))
            return self.obls, sha, fn
        run = st0.copy()
        for s1, out in self.block(fn.body, run):
            self.n_paths += 1
            self.at_exit(c, s1, out)
        return self.obls, sha, fn

    def at_exit(self, c, st, out):
        from .specev import SpecEval
        if out is not None and out[0] == "raise":
            e = out[1]
            st.trace.append("raise:%s" % (e.tag or "*"))
            self.exits.append(("raise", e.tag, st))
            decl = None
            for k in c.raises:
                if k == "*" or (e.tag is not None and self.reg.exc_isa(e.tag, k)):
                    decl = k; break
            if decl is None:
                self.oblige(st, "no-undeclared-exception", e.tag or "*", z3.BoolVal(False), None,
                            "exception %s (%s) is not declared by the contract, so this path must be infeasible" % (e.tag, e.origin))
                return
            ev = SpecEval(self, st, self.old, {"raised": SV(e.ref, RefT(e.tag or "BaseException"))}, set(c.params))
            for cl in c.raises[decl]:
                self.oblige(st, cl.kind, cl.label, ev.bool(cl.ast), None, cl.text)
            self.exit_frame(c, st, "raises[%s]" % decl)
            return
        if out is None or out[0] == "return":
            res = out[1] if out else SV(NULL, NONE)
            st.trace.append("return")
            self.exits.append(("return", None, st))
            env = {}
            if c.returns:
                env["result"] = self.coerce(res, self.ptype(c.returns), st)
            else:
                env["result"] = res
            ev = SpecEval(self, st, self.old, env, set(c.params))     # parameter names denote the values at entry
            for cl in c.ensures:
                f = ev.bool(cl.ast)
                self.oblige(st, "ensures", cl.label, f, None, cl.text)
                if cl.label.startswith("LEMMA-"):
                    st.pc.append(f)      # proved just above (own obligation); may be used for the clauses that follow
            self.exit_frame(c, st, "ensures")
            return
        raise Unsupported("break/continue outside loop")

    def exit_frame(self, c, st, label):
        from .specev import SpecEval
        frame = {}
        for loc in c.modifies:
            for region, sort, ref in SpecEval(self, self.old, self.old, {}).locations(loc):
                if ref is None: frame[region] = None
                elif frame.get(region, []) is not None: frame.setdefault(region, []).append(ref)
        self.check_frame(self.old, st, frame, "frame", label)
