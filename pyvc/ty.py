"""Types of the verified Python subset and their SMT sorts (DESIGN.md section 2.3).

Everything mutable lives behind the uninterpreted sort Ref; the heap is a family of arrays Ref -> X
("regions"), one per field name and one per kind of container content.
"""
import z3

I, B = z3.IntSort(), z3.BoolSort()
Ref = z3.DeclareSort("Ref")          # identity of every heap object (instances, lists, dicts, sets, graphs)
Key = z3.DeclareSort("Key")          # argument tuples of cells; '=' is Python '==' (assumed lawful)
Val = z3.DeclareSort("Val")          # arbitrary user values (formula results, reference values)
Str = z3.DeclareSort("Str")          # opaque strings (only equality)
Name = z3.DeclareSort("Name")        # dot-free component of a dotted name

NULL = z3.Const("null", Ref)         # None where an object is expected
VNONE = z3.Const("vnone", Val)       # None as a user value
SNONE = z3.Const("snone", Str)       # None where a string is expected
EPS = z3.Const("eps_name", Name)     # the empty component ("" == [eps])

Node = z3.Datatype("Node")
Node.declare("item", ("obj", Ref), ("key", Key))
Node.declare("objnode", ("oobj", Ref))
Node = Node.create()


RNode = z3.Datatype("RNode")
RNode.declare("nd", ("nd_node", Node))
RNode.declare("rf", ("rf_ref", Ref))
RNode = RNode.create()


class Ty:
    sort = None
    def __repr__(self): return self.name
    def __eq__(self, o): return isinstance(o, Ty) and self.name == o.name
    def __hash__(self): return hash(self.name)


class Prim(Ty):
    def __init__(self, name, sort): self.name, self.sort = name, sort


INT = Prim("int", I); BOOL = Prim("bool", B); STR = Prim("str", Str); KEY = Prim("key", Key)
VAL = Prim("val", Val); NODE = Prim("node", Node); NAME = Prim("name", Name)
RNODE = Prim("rnode", RNode)   # node of a ReferenceGraph: a reference object or a trace node
NONE = Prim("none", Ref)             # the literal None before it meets a typed context


class RefT(Ty):
    """Instance of a declared class (fields in the heap)."""
    sort = Ref
    def __init__(self, cls): self.cls = cls; self.name = "ref[%s]" % cls


_dt_cache = {}


def _sname(sort):
    return str(sort).replace(" ", "").replace("(", "_").replace(")", "_").replace(",", "_")


class TupT(Ty):
    """Fixed-length heterogeneous tuple -> one datatype per signature."""
    def __init__(self, items):
        self.items = list(items); self.name = "tuple[%s]" % ",".join(t.name for t in self.items)
        k = ("tup",) + tuple(_sname(t.sort) for t in self.items)
        if k not in _dt_cache:
            d = z3.Datatype("Tup_" + "_".join(k[1:]))
            d.declare("mk", *[("f%d" % i, t.sort) for i, t in enumerate(self.items)])
            _dt_cache[k] = d.create()
        self.sort = _dt_cache[k]
    def mk(self, *vals): return self.sort.mk(*vals)
    def get(self, v, i): return getattr(self.sort, "f%d" % i)(v)


def seq_sort(esort):
    k = ("seq", _sname(esort))
    if k not in _dt_cache:
        d = z3.Datatype("Seq_" + k[1])
        d.declare("mkseq", ("slen", I), ("sarr", z3.ArraySort(I, esort)))
        _dt_cache[k] = d.create()
    return _dt_cache[k]


class SeqT(Ty):
    """Immutable sequence value (tuple/list used by value): (len, Int -> elem)."""
    def __init__(self, elem): self.elem = elem; self.name = "seq[%s]" % elem.name; self.sort = seq_sort(elem.sort)
    def mk(self, n, arr): return self.sort.mkseq(n, arr)
    def len(self, v): return self.sort.slen(v)
    def arr(self, v): return self.sort.sarr(v)


class PathT(SeqT):
    """Dotted name 'a.b.c' as the sequence of its components; len 0 encodes None, [eps] encodes ''."""
    def __init__(self):
        SeqT.__init__(self, NAME); self.name = "path"


PATH = PathT()


class ListT(Ty):
    """Mutable list/deque: a Ref whose content is a sequence in region seq:<elem sort>."""
    sort = Ref
    def __init__(self, elem, kind="list"): self.elem = elem; self.kind = kind; self.name = "%s[%s]" % (kind, elem.name)
    @property
    def seqty(self): return SeqT(self.elem)
    @property
    def region(self): return "seq:" + _sname(self.elem.sort)


class SetT(Ty):
    sort = Ref
    def __init__(self, elem): self.elem = elem; self.name = "set[%s]" % elem.name
    @property
    def region(self): return "set:" + _sname(self.elem.sort)


class DictT(Ty):
    sort = Ref
    def __init__(self, k, v, ordered=False):
        self.k, self.v, self.ordered = k, v, ordered
        self.name = "%s[%s,%s]" % ("odict" if ordered else "dict", k.name, v.name)
    @property
    def dom_region(self): return "set:" + _sname(self.k.sort)
    @property
    def val_region(self): return "val:%s:%s" % (_sname(self.k.sort), _sname(self.v.sort))
    @property
    def key_region(self): return "seq:" + _sname(self.k.sort)       # insertion order (ordered dicts only)


class SetVT(Ty):
    """Pure set value (spec level): Array(elem, Bool)."""
    def __init__(self, elem): self.elem = elem; self.name = "setv[%s]" % elem.name; self.sort = z3.ArraySort(elem.sort, B)


class GraphT(Ty):
    """nx.DiGraph over `elem` nodes: node set in set:<elem>, edges in edge:<elem>."""
    sort = Ref
    def __init__(self, elem=None, name="graph"):
        self.elem = elem or NODE; self.name = name if elem is None else "%s[%s]" % (name, self.elem.name)
    @property
    def node_region(self): return "set:" + _sname(self.elem.sort)
    @property
    def edge_region(self): return "edge:" + _sname(self.elem.sort)


    @property
    def eidx_region(self): return "eidx:" + _sname(self.elem.sort)


class EdgeViewT(Ty):
    """G.edges of a graph value (only subscripted: G.edges[(a, b)]["index"])."""
    sort = Ref
    def __init__(self, g): self.g = g; self.name = "edgeview[%s]" % g.elem.name


GRAPH = GraphT()


def region_sort(region):
    """Range sort of a heap region given its key."""
    kind, _, rest = region.partition(":")
    if kind == "seq": return seq_sort(_SORTS[rest])
    if kind == "set": return z3.ArraySort(_SORTS[rest], B)
    if kind == "edge": s = _SORTS[rest]; return z3.ArraySort(s, z3.ArraySort(s, B))
    if kind == "eidx": s = _SORTS[rest]; return z3.ArraySort(s, z3.ArraySort(s, I))
    if kind == "val":
        k, v = rest.split(":"); return z3.ArraySort(_SORTS[k], _SORTS[v])
    raise KeyError(region)


_SORTS = {}


def register_sort(sort):
    _SORTS[_sname(sort)] = sort
    return sort


for _s in (I, B, Ref, Key, Val, Str, Name, Node, RNode):
    register_sort(_s)


def parse_type(s, classes=None):
    """'int' 'bool' 'str' 'key' 'val' 'node' 'name' 'path' 'ref[C]' 'C' 'list[T]' 'deque[T]' 'seq[T]'
    'set[T]' 'dict[K,V]' 'odict[K,V]' 'tuple[T1,T2]' 'graph' 'graph[T]'"""
    s = s.strip()
    prim = {"int": INT, "bool": BOOL, "str": STR, "key": KEY, "val": VAL, "node": NODE, "name": NAME,
            "path": PATH, "graph": GRAPH, "none": NONE, "rnode": RNODE}
    if s in prim: return prim[s]
    if "[" not in s: return RefT(s)
    head, _, rest = s.partition("["); rest = rest[:-1]
    args, depth, cur = [], 0, ""
    for ch in rest:
        if ch == "[": depth += 1
        if ch == "]": depth -= 1
        if ch == "," and depth == 0: args.append(cur); cur = ""
        else: cur += ch
    args.append(cur)
    ts = [parse_type(a, classes) for a in args]
    for t in ts:
        if t.sort is not None: register_sort(t.sort)
    if head == "ref": return RefT(args[0].strip())
    if head in ("list", "deque"): return ListT(ts[0], head)
    if head == "seq": t = SeqT(ts[0]); register_sort(t.sort); return t
    if head == "set": return SetT(ts[0])
    if head == "setv": return SetVT(ts[0])
    if head == "dict": return DictT(ts[0], ts[1])
    if head == "odict": return DictT(ts[0], ts[1], ordered=True)
    if head == "tuple": t = TupT(ts); register_sort(t.sort); return t
    if head == "graph": return GraphT(ts[0])
    raise ValueError("unknown type " + s)


class SV:
    """Symbolic value: z3 term + type."""
    __slots__ = ("v", "ty", "py")
    def __init__(self, v, ty, py=None): self.v, self.ty, self.py = v, ty, py
    def __repr__(self): return "SV(%s:%s)" % (self.v, self.ty)
