"""Sidecar contract registry (DESIGN.md section 2.2).

Contracts are data: clause strings in a Python-expression subset, evaluated by the engine's spec evaluator
over a symbolic (old, new) state pair.  A clause may carry a label:  "LABEL: expr".
"""
import ast, hashlib, os, re


class ClassDecl:
    def __init__(self, name, fields=None, bases=(), content=None, doc="", consts=None):
        self.name, self.fields, self.bases, self.content, self.doc = name, dict(fields or {}), tuple(bases), content, doc
        self.consts = dict(consts or {})         # class-level constants read as self.NAME
        # content: type string of the object's own container content when the class subclasses deque/list/dict
        # (e.g. CallStack(deque): content="deque[node]")


class Clause:
    def __init__(self, text, idx, kind):
        m = re.match(r"^\s*([A-Za-z0-9_\-\.]+)\s*::\s*(.*)$", text, re.S)
        if m: self.label, self.text = m.group(1), m.group(2)
        else: self.label, self.text = "%d" % idx, text
        self.kind = kind
        try:
            self.ast = ast.parse(self.text.strip(), mode="eval").body
        except SyntaxError as e:
            raise SyntaxError("bad clause %r: %s" % (text, e))


def _clauses(lst, kind):
    return [Clause(t, i, kind) for i, t in enumerate(lst or [])]


class Contract:
    def __init__(self, target, params, returns=None, requires=(), ensures=(), raises=None, modifies=(),
                 loops=None, pure=False, decreases=None, static_self=None, trusted=False, note="",
                 ghost_entry=(), alloc=(), locals=None, ambient_exc=False, nullable=(), never_returns=False, defaults=None, static=None, supers=None, views=None, field_types=None):
        self.target = target                      # "modelx/core/system.py::CallStack.pop" or "extern::name"
        self.file, _, self.qual = target.partition("::")
        self.params = dict(params)                # ordered: name -> type string
        self.returns = returns
        self.requires = _clauses(requires, "requires")
        self.ensures = _clauses(ensures, "ensures")
        self.raises = {k: _clauses(v, "raises[%s]" % k) for k, v in (raises or {}).items()}
        self.modifies = list(modifies)
        self.loops = {}
        for k, v in (loops or {}).items():
            if isinstance(v, (list, tuple)): v = {"inv": list(v)}
            self.loops[k] = {"inv": _clauses(v.get("inv"), "inv%d" % k), "modifies": list(v.get("modifies", [])),
                             "decreases": v.get("decreases"), "binds": v.get("binds", {})}
        self.pure = pure
        self.decreases = decreases
        self.trusted = trusted                    # external / assumed contract: used at call sites, never proved
        self.note = note
        self.alloc = alloc
        self.ambient_exc = ambient_exc; self.nullable = tuple(nullable); self.never_returns = never_returns; self.defaults = dict(defaults or {}); self.static = dict(static or {}); self.supers = dict(supers or {}); self.views = dict(views or {})
        self.field_types = dict(field_types or {})
        self.locals = dict(locals or {})          # declared types for locals the engine cannot infer

    @property
    def name(self):
        return self.qual.split(".")[-1]

    @property
    def cls(self):
        return self.qual.split(".")[0] if "." in self.qual else None


class Registry:
    def __init__(self):
        self.classes = {}
        self.contracts = {}          # qual ("Class.method" or "func") -> Contract
        self.specfuns = {}           # name -> python callable(ev, *SV) -> SV   or  (params, body-ast)
        self.consts = {}             # module-level constants visible to code: name -> python int/str/...
        self.globals = {}            # ghost/global objects: name -> type string (one symbolic constant each)
        self.exc_parents = {
            "BaseException": None, "Exception": "BaseException", "KeyError": "LookupError", "IndexError": "LookupError",
            "LookupError": "Exception", "ValueError": "Exception", "TypeError": "Exception",
            "AttributeError": "Exception", "RuntimeError": "Exception", "NameError": "Exception",
            "OSError": "Exception", "FileNotFoundError": "OSError", "AssertionError": "Exception",
            "StopIteration": "Exception", "NotImplementedError": "RuntimeError", "RecursionError": "RuntimeError",
            "KeyboardInterrupt": "BaseException", "ZeroDivisionError": "ArithmeticError", "ArithmeticError": "Exception",
            "FormulaError": "Exception", "DeepReferenceError": "Exception", "NoneReturnedError": "Exception",
            "DeletedObjectError": "Exception", "NetworkXError": "Exception",
        }
        self.lemmas = []             # (name, fn(L) -> list[(label, hyps, goal)])
        self.assumptions = []

    def cls(self, name, fields=None, bases=(), content=None, doc="", consts=None):
        self.classes[name] = ClassDecl(name, fields, bases, content, doc, consts); return self.classes[name]

    def class_const(self, cls, name):
        seen = set(); todo = [cls]
        while todo:
            c = todo.pop(0)
            if c in seen or c not in self.classes: continue
            seen.add(c)
            if name in self.classes[c].consts: return self.classes[c].consts[name]
            todo.extend(self.classes[c].bases)
        return None

    def contract(self, target, variant=None, **kw):
        """variant: register a second contract of the same function for another static argument value; it is
        verified as its own target '<qual>@<variant>' and chosen at call sites by the static arguments"""
        c = Contract(target, **kw)
        if variant:
            c.variant = variant
            self.contracts[c.qual + "@" + variant] = c
            base = self.contracts.get(c.qual)
            if base is not None:
                base.variants = getattr(base, "variants", []) + [c]
            return c
        self.contracts[c.qual] = c; return c

    def specfun(self, name):
        def deco(fn): self.specfuns[name] = fn; return fn
        return deco

    def macro(self, name, params, body):
        self.specfuns[name] = (list(params), ast.parse(body.strip(), mode="eval").body)

    def lemma(self, name):
        def deco(fn): self.lemmas.append((name, fn)); return fn
        return deco

    def field_type(self, cls, field):
        seen = set()
        todo = [cls]
        while todo:
            c = todo.pop(0)
            if c in seen or c not in self.classes: continue
            seen.add(c)
            d = self.classes[c]
            if field in d.fields: return d.fields[field]
            todo.extend(d.bases)
        return None

    def find_method(self, cls, name):
        seen = set(); todo = [cls]
        while todo:
            c = todo.pop(0)
            if c in seen: continue
            seen.add(c)
            if c + "." + name in self.contracts: return self.contracts[c + "." + name]
            if c in self.classes: todo.extend(self.classes[c].bases)
        return None

    def is_subclass(self, a, b):
        seen = set(); todo = [a]
        while todo:
            c = todo.pop(0)
            if c == b: return True
            if c in seen: continue
            seen.add(c)
            if c in self.classes: todo.extend(self.classes[c].bases)
        return False

    def exc_isa(self, a, b):
        while a is not None:
            if a == b: return True
            a = self.exc_parents.get(a)
        return False


def find_function(repo, file, qual):
    """Locate the FunctionDef of `qual` in the CURRENT source of repo/file.  Returns (node, source segment, sha1)."""
    path = os.path.join(repo, file)
    src = open(path).read()
    tree = ast.parse(src)
    parts = qual.split(".")
    body = tree.body
    node = None
    for i, p in enumerate(parts):
        node = None
        for n in body:
            if isinstance(n, (ast.FunctionDef, ast.ClassDef)) and n.name == p:
                node = n
        if node is None:
            # functions defined under `if`/`try` at module or class level
            for n in body:
                for sub in ast.walk(n):
                    if isinstance(sub, (ast.FunctionDef, ast.ClassDef)) and sub.name == p and node is None:
                        node = sub
        if node is None:
            raise KeyError("%s::%s not found" % (file, qual))
        body = node.body
    seg = ast.get_source_segment(src, node)
    # "the function changed" is decided on the AST (positions, comments, blank lines and the docstring do not count)
    import copy
    n2 = copy.deepcopy(node)
    if n2.body and isinstance(n2.body[0], ast.Expr) and isinstance(n2.body[0].value, ast.Constant) and isinstance(n2.body[0].value.value, str):
        n2.body = n2.body[1:] or [ast.Pass()]
    return node, seg, hashlib.sha1(ast.dump(n2, include_attributes=False).encode()).hexdigest()[:12]
