"""Per-property driver of the deductive part: verify every function under contract and every lemma the property
depends on, in parallel (one worker process per target), and assemble the evidence."""
import os, sys, json, time, traceback, hashlib, multiprocessing as mp


def _load(here):
    if here not in sys.path: sys.path.insert(0, here)
    import importlib
    specs = importlib.import_module("specs")
    return specs


def obligation_key(target, ob):
    return "%s/%s[%s]" % (target, ob["kind"], ob["label"])


STREAM = None        # (queue, job id) inside a worker process: finished obligations are streamed to the parent


def _emit(kind, payload):
    if STREAM is not None:
        try: STREAM[0].put((STREAM[1], kind, payload))
        except Exception: pass


def _verify_target(args):
    """worker: (here, repo, qual, tier) -> result dict (no z3 objects)"""
    here, repo, qual, tier = args[:4]
    shard, nshards = (args[4], args[5]) if len(args) > 4 else (0, 1)
    only = args[6] if len(args) > 6 else None        # retry: solve just these obligation ids
    t0 = time.time()
    out = {"target": qual, "obligations": [], "faults": [], "unsupported": None, "shard": shard}
    try:
        import z3
        from pyvc.engine import Engine, Unsupported
        from pyvc.solve import discharge
        from pyvc.specev import SpecError
        specs = _load(here)
        reg = specs.registry()
        c = reg.contracts[qual]
        eng = Engine(reg, repo)
        out["file"] = c.file
        try:
            obls, sha, fn = eng.verify_function(c)
        except Exception as e:
            # Unsupported / SpecError: the function (as it is now) is outside the supported subset or the contract no longer
            # applies to it; any other exception of the generator on this function is reported the same way (nothing is proved)
            out["unsupported"] = "%s: %s" % (type(e).__name__, e)
            if os.environ.get("PYVC_TB"): out["unsupported"] += "\n" + traceback.format_exc()
            out["wall_s"] = round(time.time() - t0, 2)
            return out
        from pyvc import concretize
        replayable_target = concretize.replayable(c)
        out["sha"] = sha; out["lines"] = "%d-%d" % (fn.lineno, fn.end_lineno); out["paths"] = eng.n_paths
        seen = {}
        out["generated"] = len(obls)
        # plan of this shard (so that the parent knows what is missing if this process has to be killed)
        plan, seen0 = [], {}
        for idx, ob in enumerate(obls):
            ct0 = c.target + ("@" + c.variant if getattr(c, "variant", None) else "")
            k0 = obligation_key(ct0, ob); seen0[k0] = seen0.get(k0, 0) + 1
            if idx % nshards == shard and (only is None or ("%s#%d" % (k0, seen0[k0])) in only):
                plan.append({"id": "%s#%d" % (k0, seen0[k0]), "key": k0, "target": ct0, "kind": ob["kind"], "label": ob["label"], "clause": ob.get("text")})
        _emit("meta", {"file": c.file, "sha": sha, "lines": out["lines"], "paths": eng.n_paths, "generated": len(obls), "plan": plan})
        for idx, ob in enumerate(obls):
            ctarget = c.target + ("@" + c.variant if getattr(c, "variant", None) else "")
            key = obligation_key(ctarget, ob)
            seen[key] = seen.get(key, 0) + 1
            if idx % nshards != shard: continue
            if only is not None and ("%s#%d" % (key, seen[key])) not in only: continue
            ob["id"] = "%s#%d" % (key, seen[key])
            ob["replayable"] = replayable_target
            discharge(ob, quick=(tier == "quick"), retry=(only is not None))
            rec = {"id": "%s#%d" % (key, seen[key]), "key": key, "target": ctarget, "kind": ob["kind"], "label": ob["label"],
                   "clause": ob.get("text"), "status": ob["status"], "backend": ob.get("backend"), "time_s": ob.get("time_s"),
                   "path": "/".join(ob["trace"]), "line": ob.get("line")}
            if ob.get("hint_out"): rec["hint_out"] = ob["hint_out"]
            if ob["status"] != "proved" and ob.get("failed_conjunct"): rec["failed_conjunct"] = ob["failed_conjunct"][:1500]
            if ob["status"] == "fault":
                out["faults"].append("%s: %s" % (rec["id"], ob.get("why")))
            if ob["status"] == "undecided" and ob.get("_model") is not None:
                # candidate from the windowed search: a counterexample only if it reproduces on the real code
                try:
                    from pyvc import concretize
                    obk = dict(ob)
                    rp = concretize.replay(reg, repo, c, obk)
                    if rp and rp.get("reproduced") is True:
                        ob["status"] = rec["status"] = "refuted"; rec["model"] = ob.get("candidate_model"); rec["replay"] = rp
                        rec["backend"] = (rec.get("backend") or "") + "+replayed-on-real-code"
                except Exception as e:
                    rec["replay_error"] = "%s: %s" % (type(e).__name__, e)
            elif ob["status"] == "refuted":
                rec["model"] = ob.get("model")
                try:
                    from pyvc import concretize
                    rec["replay"] = concretize.replay(reg, repo, c, ob)
                except Exception as e:
                    rec["replay"] = None; rec["replay_error"] = "%s: %s" % (type(e).__name__, e)
            out["obligations"].append(rec)
            _emit("ob", rec)
        # canaries: every reachable exit must stay satisfiable (contradictory assumptions would prove anything)
        can = {"exits": 0, "refuted": 0, "proved": []}
        for kind, tag, st in (eng.exits if shard == 0 else []):
            can["exits"] += 1
            s = z3.Solver(); s.set("timeout", 1500 if tier == "quick" else 20000); s.set("smt.mbqi", False)
            s.add(*eng.axioms); s.add(*st.pc)
            r = s.check()
            if r == z3.unsat:
                can["proved"].append("/".join(st.trace))
            else:
                can["refuted"] += 1
        if eng.n_paths == 0 or (shard == 0 and can["exits"] == 0):
            out["faults"].append("%s: no feasible exit (vacuous contract?)" % qual)
        if can["proved"]:
            # an exit that is infeasible after all is only pruned late; it is a fault only if NO exit is satisfiable
            if can["refuted"] == 0:
                out["faults"].append("%s: canary proved on every exit (contradictory assumptions)" % qual)
        out["canaries"] = {"exits": can["exits"], "satisfiable": can["refuted"]}
        if not obls:
            out["faults"].append("%s: zero obligations generated" % qual)
        out["paths"] = eng.n_paths
    except Exception:
        out["faults"].append("worker crashed on %s:\n%s" % (qual, traceback.format_exc()))
    out["wall_s"] = round(time.time() - t0, 2)
    return out


def _verify_lemma(args):
    here, repo, name, tier = args
    t0 = time.time()
    out = {"target": "lemma::" + name, "obligations": [], "faults": [], "unsupported": None, "lemma": True}
    try:
        import z3
        from pyvc.engine import Engine
        from pyvc.solve import discharge
        from pyvc.lemma import LemmaCtx
        specs = _load(here)
        reg = specs.registry()
        fn = dict(reg.lemmas)[name]
        eng = Engine(reg, repo)
        L = LemmaCtx(eng)
        items = fn(L) or []
        for label, hyps, goal in items:
            ob = {"kind": "lemma", "label": label, "hyps": list(eng.axioms) + list(hyps), "goal": goal, "trace": [], "text": label}
            discharge(ob, quick=(tier == "quick"))
            key = "lemma::%s/%s" % (name, label)
            rec = {"id": key, "key": key, "target": "lemma::" + name, "kind": "lemma", "label": label, "clause": label,
                   "status": ob["status"], "backend": ob.get("backend"), "time_s": ob.get("time_s"), "path": ""}
            if ob["status"] == "refuted": rec["model"] = ob.get("model")
            if ob["status"] == "fault": out["faults"].append("%s: %s" % (key, ob.get("why")))
            out["obligations"].append(rec)
            # vacuity guard of the lemma's hypotheses
            s = z3.Solver(); s.set("timeout", 5000); s.add(*eng.axioms); s.add(*hyps)
            if s.check() == z3.unsat:
                out["faults"].append("%s: hypotheses are contradictory" % key)
        if not items:
            out["faults"].append("lemma %s produced no obligation" % name)
    except Exception:
        out["faults"].append("worker crashed on lemma %s:\n%s" % (name, traceback.format_exc()))
    out["wall_s"] = round(time.time() - t0, 2)
    return out


def load_baseline(here):
    p = os.path.join(here, "baseline_obligations.json")
    if os.path.exists(p): return json.load(open(p))
    return {}


def _job_main(q, jid, f, a):
    global STREAM
    STREAM = (q, jid)
    try:
        r = f(a)
    except BaseException:
        r = {"target": a[2], "obligations": [], "faults": ["worker crashed on %s:\n%s" % (a[2], traceback.format_exc())], "unsupported": None,
             "shard": a[4] if len(a) > 4 else 0, "lemma": f is _verify_lemma, "wall_s": 0}
    q.put((jid, "done", r))


def _run_jobs(jobs, nprocs, hard_s):
    """Run each job in its own process (at most nprocs at a time).  A job that does not finish within hard_s seconds is
    killed (solvers have been seen to ignore their own limits); what it had finished is kept, what it had not is undecided."""
    ctx = mp.get_context("fork")
    q = ctx.Queue()
    pending = list(enumerate(jobs)); running = {}; results = {}; partial = {}
    while pending or running:
        while pending and len(running) < nprocs:
            jid, (f, a) = pending.pop(0)
            p = ctx.Process(target=_job_main, args=(q, jid, f, a), daemon=True); p.start()
            running[jid] = (p, time.time()); partial[jid] = {"meta": None, "obs": []}
        try:
            jid, kind, payload = q.get(timeout=1.0)
            if kind == "done":
                results[jid] = payload
                pr = running.pop(jid, None)
                if pr: pr[0].join(timeout=5)
            elif kind == "meta": partial[jid]["meta"] = payload
            elif kind == "ob": partial[jid]["obs"].append(payload)
        except Exception:
            pass
        now = time.time()
        for jid, (p, t0) in list(running.items()):
            dead = not p.is_alive()
            if dead and jid not in results:
                # give a finished process a moment to have its last message read
                try:
                    while True:
                        j2, kind, payload = q.get(timeout=0.5)
                        if kind == "done": results[j2] = payload; running.pop(j2, None)
                        elif kind == "meta": partial[j2]["meta"] = payload
                        elif kind == "ob": partial[j2]["obs"].append(payload)
                except Exception:
                    pass
            if jid in results: running.pop(jid, None); continue
            if dead or now - t0 > hard_s:
                if not dead:
                    p.kill(); p.join(timeout=5)
                running.pop(jid, None)
                f, a = jobs[jid]
                meta = partial[jid]["meta"] or {}
                done = {o["id"] for o in partial[jid]["obs"]}
                obs = list(partial[jid]["obs"])
                why = ("the solver process did not return within the hard limit of %d s and was stopped" % hard_s) if not dead else "the solver process died"
                for pl in meta.get("plan", []):
                    if pl["id"] not in done:
                        obs.append(dict(pl, status="undecided", backend="-", time_s=0, path="", why=why))
                r = {"target": a[2], "obligations": obs, "faults": [], "unsupported": None if meta else ("no result: " + why),
                     "shard": a[4] if len(a) > 4 else 0, "file": meta.get("file"), "sha": meta.get("sha"), "lines": meta.get("lines"),
                     "paths": meta.get("paths"), "generated": meta.get("generated"), "wall_s": round(now - t0, 2), "killed": True}
                if f is _verify_lemma:
                    r["lemma"] = True; r["target"] = "lemma::" + a[2]
                    if not obs: r["faults"].append("lemma %s: %s" % (a[2], why))
                results[jid] = r
    return [results[j] for j in range(len(jobs))]


def run_property(prop, tier, repo, here, targets=None, procs=None, only=None, retry=True):
    """First pass with the tier's budgets; obligations left undecided get one more pass with larger budgets (so that a busy
    machine does not flip verdicts)."""
    r = _run_property(prop, tier, repo, here, targets, procs, only)
    if r is None or not retry or only is not None:
        return r
    und = {o["id"] for o in r["obligations"] if o["status"] == "undecided" and o.get("kind") not in ("unsupported", "missing")}
    if not und:
        return r
    specs = _load(here); reg = specs.registry()
    quals = sorted({q for q in (targets or specs.PROPERTIES[prop]["targets"])
                    if any(o["id"] in und and o["target"] == reg.contracts[q].target + ("@" + reg.contracts[q].variant if getattr(reg.contracts[q], "variant", None) else "") for o in r["obligations"])})
    again = _run_property(prop, tier, repo, here, quals, procs, und)
    better = {o["id"]: o for o in again["obligations"]}
    for i, o in enumerate(r["obligations"]):
        if o["id"] in better and o["status"] == "undecided":
            better[o["id"]]["in_baseline"] = o.get("in_baseline"); better[o["id"]]["retried"] = True
            r["obligations"][i] = better[o["id"]]
    r["faults"].extend(f for f in again["faults"] if f not in r["faults"])
    r["retried"] = len(und)
    return r


def _run_property(prop, tier, repo, here, targets=None, procs=None, only=None):
    specs = _load(here)
    reg = specs.registry()
    pdef = specs.PROPERTIES.get(prop)
    if pdef is None:
        return None
    t0 = time.time()
    quals = targets or pdef["targets"]
    shards = pdef.get("shards", {})
    jobs = [(_verify_target, (here, repo, q, tier, i, shards.get(q, 3), only)) for q in quals for i in range(shards.get(q, 3))] + \
           [(_verify_lemma, (here, repo, l, tier)) for l in (pdef.get("lemmas", []) if not targets else [])]
    raw = _run_jobs(jobs, min(procs or 15, max(1, len(jobs))),
                    hard_s=(2400 if tier != "quick" else 900))
    # merge the shards of one target
    results, by_target = [], {}
    for r in raw:
        if r.get("lemma"): results.append(r); continue
        m = by_target.get(r["target"])
        if m is None:
            by_target[r["target"]] = r; results.append(r)
        else:
            m["obligations"].extend(r["obligations"]); m["faults"].extend(f for f in r["faults"] if f not in m["faults"])
            m["wall_s"] = max(m["wall_s"], r["wall_s"])
            if r.get("canaries") and r.get("shard") == 0: m["canaries"] = r["canaries"]
            if m["unsupported"] is None: m["unsupported"] = r["unsupported"]
    for r in results:
        r["obligations"].sort(key=lambda o: o["id"])
    base = set(load_baseline(here).get(prop, []))
    obligations, faults, functions, lemmas, backends, solver_time = [], [], [], [], {}, 0.0
    canaries = {"exits": 0, "satisfiable": 0}
    for r in results:
        faults.extend(r["faults"])
        if r.get("lemma"):
            lemmas.append({"lemma": r["target"], "obligations": len(r["obligations"]), "wall_s": r["wall_s"]})
        else:
            functions.append({"function": "%s::%s" % (r.get("file"), r["target"]), "source_sha1": r.get("sha"), "lines": r.get("lines"),
                              "paths": r.get("paths"), "obligations": len(r["obligations"]), "unsupported": r["unsupported"],
                              "wall_s": r["wall_s"]})
            for k in canaries: canaries[k] += (r.get("canaries") or {}).get(k, 0)
        if r["unsupported"]:
            # outside the supported subset: nothing proved for this function; every baseline clause of it is undecided
            tgt = reg.contracts[r["target"]].target + ("@" + reg.contracts[r["target"]].variant if getattr(reg.contracts[r["target"]], "variant", None) else "")
            keys = sorted(k for k in base if k.startswith(tgt + "/"))
            for k in keys or [tgt + "/unsupported[-]"]:
                obligations.append({"id": k + "#unsupported", "key": k, "target": tgt, "kind": "unsupported", "status": "undecided",
                                    "why": r["unsupported"], "in_baseline": k in base, "backend": None, "time_s": 0})
            continue
        for ob in r["obligations"]:
            ob["in_baseline"] = ob["key"] in base
            obligations.append(ob)
            backends[ob.get("backend") or "-"] = backends.get(ob.get("backend") or "-", 0) + 1
            solver_time += ob.get("time_s") or 0
    # clauses proved in the baseline that produced no obligation at all now (e.g. the code path disappeared)
    produced = {o["key"] for o in obligations}
    for k in (sorted(base - produced) if (only is None and not targets) else []):
        if any(k.startswith(reg.contracts[q].target + ("@" + reg.contracts[q].variant if getattr(reg.contracts[q], "variant", None) else "") + "/") for q in quals if q in reg.contracts) or k.startswith("lemma::"):
            kind = k.split("::", 1)[-1].split("/", 1)[-1]
            if kind.startswith(("loop-", "call-requires", "assert", "no-undeclared", "frame", "loop-frame", "decreases", "comprehension-safe")):
                continue    # path-shaped obligations may legitimately disappear
            obligations.append({"id": k + "#missing", "key": k, "target": k.split("/")[0], "kind": "missing", "status": "undecided",
                                "why": "clause produced no obligation on this tree", "in_baseline": True, "backend": None, "time_s": 0})
    trusted = sorted({c.target + (" — " + c.note if c.note else "") for c in reg.contracts.values() if c.trusted})
    return {
        "obligations": obligations, "faults": faults, "functions": functions, "lemmas": lemmas, "backends": backends,
        "solver_time_s": round(solver_time, 2), "canaries": canaries, "trusted_base": pdef.get("trusted_base", []) + trusted[:0],
        "assumptions": list(specs.STANDING_ASSUMPTIONS) + pdef.get("assumptions", []),
        "wall_s": round(time.time() - t0, 2),
    }


def replay_obligation(r, repo):
    cr = r.get("concrete_replay")
    print("obligation:", r.get("obligation")); print("clause:", r.get("clause"))
    print("verifier output (counter-model):\n", r.get("verifier_output"))
    if not cr:
        print("no concrete input was derived for this obligation (no-failing-input-found)"); return 2
    return 2
