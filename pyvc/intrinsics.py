"""Call handling: trusted models of built-in containers / networkx / stdlib (external contracts, DESIGN.md
section 5), and the modular call rule for functions that have a sidecar contract."""
import ast
import z3
from .ty import *
from . import ty as T
from .engine import Exc, Unsupported, State, EXC_INFO
from .specev import SpecEval, SpecError

NOOP_FUNCS = {"print", "warn"}
OPAQUE_STR_FUNCS = {"str", "repr", "format", "format_exception_only", "join", "get_node_repr", "tracemessage",
                    "get_repr", "strip", "rstrip", "dirname"}


def call(E, n, st):
    f = n.func
    if isinstance(f, ast.Subscript) and isinstance(f.value, ast.Name) and f.value.id in st.loc \
            and isinstance(st.loc[f.value.id].py, dict) and "__table__" in st.loc[f.value.id].py:
        # table[key](...) with a static dispatch table (see Engine.ev_Dict) and a statically known key
        done = False
        for s1, k in E.ev(f.slice, st):
            if isinstance(k, Exc) or not isinstance(k.py, str): raise Unsupported("dispatch-table key is not static at line %s" % n.lineno)
            tgt = st.loc[f.value.id].py["__table__"].get(k.py)
            if tgt is None: raise Unsupported("dispatch-table has no key %r" % k.py)
            n2 = ast.Call(func=tgt, args=n.args, keywords=n.keywords); ast.copy_location(n2, n)
            yield from call(E, n2, s1)
        return
    if isinstance(f, ast.Name) and f.id == "CustomChainMap" and len(n.args) == 1 and isinstance(n.args[0], ast.Starred) and not n.keywords \
            and "CustomChainMap" in E.reg.classes:
        # CustomChainMap(*maps): self.maps = list(maps) or [{}]   (modelx/core/chainmap.py __init__, 1 line; modelled here)
        for s1, ms in E.ev(n.args[0].value, st):
            if isinstance(ms, Exc): yield s1, ms; continue
            sq, v = E.seq_of(s1, ms)
            fld = E.ptype(E.reg.classes["CustomChainMap"].fields["maps"])
            if sq.elem.sort != Ref: raise Unsupported("CustomChainMap of %s" % sq.elem)
            s_ne = s1.copy(); s_ne.pc.append(sq.len(v) > 0)
            if E.feasible(s_ne):
                obj = E.alloc(s_ne, RefT("CustomChainMap"), "chainmap"); lst = E.alloc(s_ne, fld, "maps"); E.set_seq(s_ne, lst, v)
                E.set_field(s_ne, obj, "maps", lst); yield s_ne, obj
            s_e = s1.copy(); s_e.pc.append(sq.len(v) == 0)
            if E.feasible(s_e):
                obj = E.alloc(s_e, RefT("CustomChainMap"), "chainmap"); lst = E.alloc(s_e, fld, "maps")
                d = E.alloc(s_e, fld.elem, "emptymap"); E.put_set(s_e, d, z3.K(fld.elem.k.sort, False))
                E.set_seq(s_e, lst, sq.mk(z3.IntVal(1), z3.K(I, d.v)))
                E.set_field(s_e, obj, "maps", lst); yield s_e, obj
        return
    if any(isinstance(a, ast.Starred) for a in n.args) or any(k.arg is None for k in n.keywords):
        yield from starred_call(E, n, st); return
    if isinstance(f, ast.Name):
        yield from name_call(E, n, st, f.id); return
    if isinstance(f, ast.Attribute):
        yield from attr_call(E, n, st); return
    raise Unsupported("call form at line %s" % n.lineno)


def starred_call(E, n, st):
    f = n.func
    # bf.altfunc(*key): running the user's formula -- the abstract procedure FormulaRun (rely contract)
    if isinstance(f, ast.Attribute) and f.attr == "altfunc" and len(n.args) == 1 and isinstance(n.args[0], ast.Starred) \
            and not n.keywords and "FormulaRun" in E.reg.contracts:
        for s1, vs in E.evs([f.value, n.args[0].value], st):
            if isinstance(vs, Exc): yield s1, vs; continue
            yield from apply_contract(E, E.reg.contracts["FormulaRun"], None, vs, {}, s1, n)
        return
    raise Unsupported("*args/**kwargs call at line %s: %s" % (n.lineno, ast.unparse(n)[:60]))


def evargs(E, n, st):
    """evaluate positional + keyword arguments: yields (st, (args, kwargs)) or (st, Exc)"""
    nodes = list(n.args) + [k.value for k in n.keywords]
    for s1, vs in E.evs(nodes, st):
        if isinstance(vs, Exc): yield s1, vs; continue
        yield s1, (vs[:len(n.args)], {k.arg: v for k, v in zip(n.keywords, vs[len(n.args):])})


def name_call(E, n, st, name):
    reg = E.reg
    if name in NOOP_FUNCS:
        yield st, SV(NULL, NONE); return
    if name == "isinstance" and len(n.args) == 2:
        for s1, o in E.ev(n.args[0], st):
            if isinstance(o, Exc): yield s1, o; continue
            yield s1, SV(SpecEval(E, s1, s1, {}).isinst(o, n.args[1]), BOOL)
        return
    if name in reg.exc_parents:            # exception object construction (message text dropped)
        yield st, E.alloc(st, RefT(name), "exc"); return
    if name in ("any", "all") and len(n.args) == 1 and isinstance(n.args[0], ast.GeneratorExp):
        from . import loops
        yield from loops.any_all(E, n, st, name); return
    if name == "next" and n.args and isinstance(n.args[0], ast.GeneratorExp):
        from . import loops
        yield from loops.next_first(E, n, st); return
    if name in st.loc and isinstance(st.loc[name].ty, RefT) and st.loc[name].ty.cls == "ClassObj":
        # calling a class object held in a variable: opaque construction (fresh object, no effect on existing objects -- assumed),
        # which may raise anything
        for s1, av in evargs(E, n, st):
            if isinstance(av, Exc): yield s1, av; continue
            s_ok = s1.copy()
            yield s_ok, E.alloc(s_ok, RefT("object"), "constructed")
            s_bad = s1.copy(); s_bad.trace.append("L%d:construct!*" % (n.lineno - E.base_line))
            yield s_bad, Exc(None, E.alloc(s_bad, RefT("BaseException"), "exc").v, "construction at line %s" % n.lineno)
        return
    if name in reg.classes and (name + ".__init__") in reg.contracts:
        for s1, av in evargs(E, n, st):
            if isinstance(av, Exc): yield s1, av; continue
            obj = E.alloc(s1, RefT(name), "new_" + name)
            for s2, r in apply_contract(E, reg.contracts[name + ".__init__"], obj, av[0], av[1], s1, n):
                yield s2, (r if isinstance(r, Exc) else obj)
        return
    if name in reg.contracts:
        for s1, av in evargs(E, n, st):
            if isinstance(av, Exc): yield s1, av; continue
            yield from apply_contract(E, reg.contracts[name], None, av[0], av[1], s1, n)
        return
    for s1, av in evargs(E, n, st):
        if isinstance(av, Exc): yield s1, av; continue
        args, kw = av
        if name == "getattr" and len(args) == 2 and isinstance(args[1].py, str):
            yield s1, E.get_field(s1, args[0], args[1].py)
        elif name == "len":
            o = args[0]
            if isinstance(o.ty, SeqT) or isinstance(E.content_type(o) if o.ty.sort == Ref else None, ListT):
                sq, v = E.seq_of(s1, o); yield s1, SV(sq.len(v), INT)
            elif o.ty is NODE:
                yield s1, SV(z3.If(Node.is_item(o.v), 2, 1), INT)
            elif o.ty is STR:
                E.str_repeat(E.strconst("."), z3.IntVal(0))
                yield s1, SV(z3.Function("str_len", Str, I)(o.v), INT)
            elif isinstance(o.ty, TupT):
                yield s1, SV(z3.IntVal(len(o.ty.items)), INT)
            else:
                card = z3.Function("card_" + T._sname(o.ty.sort), o.ty.sort, I)
                raise Unsupported("len() of %s" % o.ty)
        elif name == "max" and len(args) == 1 and "default" in kw and kw["default"].ty is INT:
            sq, v = E.seq_of(s1, args[0])
            if sq.elem is not INT: raise Unsupported("max() of %s" % sq.elem)
            r = E.fresh("max", I); i = E.fresh("i", I)
            s1.pc.append(z3.ForAll([i], z3.Implies(z3.And(0 <= i, i < sq.len(v)), sq.arr(v)[i] <= r)))
            s1.pc.append(z3.If(sq.len(v) == 0, r == kw["default"].v, z3.Exists([i], z3.And(0 <= i, i < sq.len(v), sq.arr(v)[i] == r))))
            yield s1, SV(r, INT)
        elif name in ("min", "max") and len(args) == 2 and all(a.ty is INT for a in args):
            a, b = args
            yield s1, SV(z3.If((a.v <= b.v) if name == "min" else (a.v >= b.v), a.v, b.v), INT)
        elif name == "isinstance":
            yield s1, SV(SpecEval(E, s1, s1, {}).isinst(args[0], n.args[1]), BOOL)
        elif name in ("str", "repr"):
            if name == "str" and args[0].ty is STR:
                yield s1, args[0]
            else:
                fn = z3.Function("str_of_" + T._sname(args[0].ty.sort), args[0].ty.sort, Str)
                yield s1, SV(fn(args[0].v), STR)
        elif name == "id":
            fn = z3.Function("id_of", args[0].ty.sort, I)
            yield s1, SV(fn(args[0].v), INT)
        elif name == "set" and not args:
            dt = decl_local_type(E, n)
            r = E.alloc(s1, dt, "set"); E.put_set(s1, r, z3.K(dt.elem.sort, False)); yield s1, r
        elif name in ("list", "tuple") and len(args) == 1:
            o = args[0]
            ct = E.content_type(o) if o.ty.sort == Ref else None
            if isinstance(o.ty, SeqT) or isinstance(ct, ListT):
                sq, v = E.seq_of(s1, o)
                if name == "tuple": yield s1, SV(v, SeqT(sq.elem))
                else:
                    r = E.alloc(s1, ListT(sq.elem), "list"); E.set_seq(s1, r, v); yield s1, r
            elif isinstance(ct, (SetT, DictT, GraphT)):
                # list(set): some enumeration without duplicates
                e, m = E.set_of(s1, o)
                yield s1, enum_of_set(E, s1, e, m, as_list=(name == "list"))
            else:
                raise Unsupported("%s() of %s" % (name, o.ty))
        elif name == "dict" and not args and not kw:
            dt = decl_local_type(E, n)
            r = E.alloc(s1, dt, "dict"); E.put_set(s1, r, z3.K(dt.k.sort, False))
            if dt.ordered: pass
            yield s1, r
        else:
            raise Unsupported("call of %s at line %s" % (name, n.lineno))


def decl_local_type(E, n):
    """Type of an empty-container display assigned to a local: taken from the contract's `locals` by line target."""
    if getattr(n, "_decl_type", None) is not None:
        return n._decl_type
    tgt = getattr(n, "_assign_target", None)
    if tgt == "@return" and E.cur_contract.returns:
        return E.ptype(E.cur_contract.returns)
    if tgt and tgt in E.cur_contract.locals:
        return E.ptype(E.cur_contract.locals[tgt])
    raise Unsupported("empty container at line %s needs a declared local type" % n.lineno)


def enum_of_set(E, st, elem, mem, as_list=True):
    """A duplicate-free sequence enumerating exactly the members of `mem` (order unspecified)."""
    sq = SeqT(elem)
    arr = E.fresh("enum", z3.ArraySort(I, elem.sort)); ln = E.fresh("enumlen", I)
    idx = z3.Function("enumidx!%d" % E._n, elem.sort, I)
    i, j = E.fresh("i", I), E.fresh("j", I); x = E.fresh("x", elem.sort)
    st.pc.append(ln >= 0)
    st.pc.append(z3.ForAll([i], z3.Implies(z3.And(0 <= i, i < ln), z3.And(mem[arr[i]], idx(arr[i]) == i))))
    st.pc.append(z3.ForAll([x], z3.Implies(mem[x], z3.And(0 <= idx(x), idx(x) < ln, arr[idx(x)] == x))))
    v = sq.mk(ln, arr)
    if not as_list: return SV(v, sq)
    r = E.alloc(st, ListT(elem), "list"); E.set_seq(st, r, v); return r


# ---------------------------------------------------------------------------------------------- attribute calls
def attr_call(E, n, st):
    f = n.func
    reg = E.reg
    # ---- module-qualified functions and explicit base-class calls
    if isinstance(f.value, ast.Name) and f.value.id not in st.loc:
        mod = f.value.id
        if mod in ("deque", "list", "dict", "set") or mod in reg.classes:
            # Class.method(self, ...) : explicit (base) class call
            for s1, av in evargs(E, n, st):
                if isinstance(av, Exc): yield s1, av; continue
                args, kw = av
                recv, rest = args[0], args[1:]
                if mod in ("deque", "list", "dict", "set"):
                    yield from container_method(E, n, s1, recv, f.attr, rest, kw)
                else:
                    c = reg.find_method(mod, f.attr)
                    if c is None: raise Unsupported("no contract for %s.%s" % (mod, f.attr))
                    yield from apply_contract(E, c, recv, rest, kw, s1, n)
            return
        if (mod + "." + f.attr) in reg.contracts:
            for s1, av in evargs(E, n, st):
                if isinstance(av, Exc): yield s1, av; continue
                yield from apply_contract(E, reg.contracts[mod + "." + f.attr], None, av[0], av[1], s1, n)
            return
        if mod in ("nx", "sys", "traceback", "warnings", "os", "shutil", "pathlib", "itertools", "ast", "json"):
            for s1, av in evargs(E, n, st):
                if isinstance(av, Exc): yield s1, av; continue
                yield from module_func(E, n, s1, mod, f.attr, av[0], av[1])
            return
        raise Unsupported("call on unknown global %s.%s at line %s" % (mod, f.attr, n.lineno))
    if isinstance(f.value, ast.Constant) and isinstance(f.value.value, str):
        # "".join(x) / ".".join(parts) / "...".format(...)
        for s1, av in evargs(E, n, st):
            if isinstance(av, Exc): yield s1, av; continue
            args, kw = av
            if f.attr == "join" and f.value.value == "." and args and isinstance(args[0].ty, SeqT) or \
                    (f.attr == "join" and f.value.value == "." and args and isinstance(E.content_type(args[0]) if args[0].ty.sort == Ref else None, ListT)):
                sq, v = E.seq_of(s1, args[0])
                if sq.elem is not NAME: raise Unsupported("'.'.join of %s" % sq.elem)
                # ".".join([]) == "" == [eps]
                res = z3.If(sq.len(v) == 0, PATH.mk(z3.IntVal(1), z3.K(I, EPS)), PATH.mk(sq.len(v), sq.arr(v)))
                yield s1, SV(res, PATH)
            else:
                yield s1, E.fresh_sv("str", STR)
        return
    # ---- super().m(...): the contract named for it by the current contract (supers={"m": "Base.m"})
    if isinstance(f.value, ast.Call) and isinstance(f.value.func, ast.Name) and f.value.func.id == "super" and not f.value.args:
        tgt = (E.cur_contract.supers or {}).get(f.attr)
        if tgt is None or tgt not in reg.contracts:
            raise Unsupported("super().%s() has no contract (declare supers={...}) at line %s" % (f.attr, n.lineno))
        for s1, av in evargs(E, n, st):
            if isinstance(av, Exc): yield s1, av; continue
            yield from apply_contract(E, reg.contracts[tgt], st.loc["self"], av[0], av[1], s1, n)
        return
    # ---- receiver is a value
    for s1, recv in E.ev(f.value, st):
        if isinstance(recv, Exc): yield s1, recv; continue
        ct0 = E.content_type(recv) if recv.ty.sort == Ref else None
        if isinstance(ct0, DictT) and f.attr in ("setdefault", "get"):
            for a in n.args[1:]:
                if isinstance(a, (ast.List, ast.Dict)) and not (getattr(a, "elts", None) or getattr(a, "keys", None)):
                    a._decl_type = ct0.v
        for s2, av in evargs(E, n, s1):
            if isinstance(av, Exc): yield s2, av; continue
            args, kw = av
            ct = E.content_type(recv) if recv.ty.sort == Ref else None
            if isinstance(recv.ty, RefT):
                c = reg.find_method(recv.ty.cls, f.attr)
                if c is not None:
                    yield from apply_contract(E, c, recv, args, kw, s2, n); continue
            if isinstance(recv.ty, PathT) and f.attr == "split" and len(args) == 1 and args[0].py == ".":
                yield s2, SV(recv.v, SeqT(NAME)); continue          # trusted: components of a dotted name
            if ct is not None or isinstance(recv.ty, (SeqT,)):
                yield from container_method(E, n, s2, recv, f.attr, args, kw); continue
            if recv.ty is STR and ("Path." + f.attr) in reg.contracts:
                yield from apply_contract(E, reg.contracts["Path." + f.attr], recv, args, kw, s2, n); continue
            if recv.ty is STR and f.attr in OPAQUE_STR_FUNCS | {"split", "isidentifier"}:
                yield s2, E.fresh_sv("str", STR); continue
            raise Unsupported("method %s on %s at line %s" % (f.attr, recv.ty, n.lineno))


def module_func(E, n, st, mod, name, args, kw):
    if mod == "sys" and name == "exc_info":
        e = st.cur_exc
        if e is None: raise Unsupported("sys.exc_info() outside handler (declare ambient_exc=True in the contract)")
        ty = z3.Function("type_of_exc", Ref, Ref); tb = z3.Function("tb_of_exc", Ref, Ref)
        st.pc.append(ty(e.ref) != NULL); st.pc.append(tb(e.ref) != NULL)
        yield st, SV(EXC_INFO.mk(ty(e.ref), e.ref, tb(e.ref)), EXC_INFO); return
    if mod == "traceback" or (mod == "os") or mod == "warnings":
        if name in ("warn",): yield st, SV(NULL, NONE); return
        yield st, E.fresh_sv("str", STR); return
    if mod == "nx":
        g = args[0]
        if name == "descendants":
            # trusted: the set of nodes reachable from `source` by >=1 edges  (Desc \ {source} unless on a cycle)
            ct, ed = E.edges_of(st, g); e, nodes = E.set_of(st, g)
            src = E.coerce(args[1], ct.elem).v
            def mk(s):
                r = E.alloc(s, SetT(ct.elem), "desc")
                E.put_set(s, r, reach_strict(E, s, ct.elem, ed, src))
                E.desc_axioms(s, ct.elem, ed, nodes, src)
                return r
            yield from E.fork_exc(st, nodes[src], mk, "NetworkXError", n); return
        if name == "topological_sort":
            raise Unsupported("nx.topological_sort is only supported through a contract")
    raise Unsupported("module function %s.%s at line %s" % (mod, name, n.lineno))


def reach_strict(E, st, elem, ed, src):
    """nx.descendants(G, src) as a set value: reachable in >= 1 step, with src itself removed (networkx discards it)."""
    D = E.desc_fun(elem)
    x = E.fresh("x", elem.sort)
    arr = E.fresh("descset", z3.ArraySort(elem.sort, B))
    st.pc.append(z3.ForAll([x], arr[x] == z3.And(D(ed, src)[x], x != src)))
    return arr


# ---------------------------------------------------------------------------------------------- containers
def dict_set(E, st, d, k, v):
    ct = E.content_type(d)
    kk = E.coerce(k, ct.k).v
    e, dom = E.set_of(st, d); _, val = E.dict_val(st, d)
    if ct.ordered:
        sq = SeqT(ct.k); ks = st.H(ct.key_region, sq.sort)[d.v]
        nk = z3.If(dom[kk], ks, sq.mk(sq.len(ks) + 1, z3.Store(sq.arr(ks), sq.len(ks), kk)))
        st.setH(ct.key_region, z3.Store(st.H(ct.key_region, sq.sort), d.v, nk))
    E.put_set(st, d, z3.Store(dom, kk, True))
    E.put_dict_val(st, d, z3.Store(val, kk, E.coerce(v, ct.v).v))


def delete(E, t, st):
    if isinstance(t, ast.Subscript):
        for s1, vs in E.evs([t.value, t.slice], st):
            if isinstance(vs, Exc): yield s1, ("raise", vs); continue
            o, ix = vs
            ct = E.content_type(o)
            if isinstance(ct, DictT) and not ct.ordered:
                kk = E.coerce(ix, ct.k).v
                e, dom = E.set_of(s1, o)
                def upd(s, o=o, kk=kk):
                    e2, dom2 = E.set_of(s, o)
                    E.put_set(s, o, z3.Store(dom2, kk, False)); return SV(NULL, NONE)
                for s2, r in E.fork_exc(s1, dom[kk], upd, "KeyError", t):
                    yield s2, (("raise", r) if isinstance(r, Exc) else None)
            elif isinstance(ct, ListT):
                sq, v = E.seq_of(s1, o)
                k = E.static_int(ix)
                if k != 0: raise Unsupported("del list[i] only for i == 0")
                def upd(s, o=o, sq=sq, v=v):
                    res, ax = E.seq_define(sq, sq.len(v) - 1, lambda i: sq.arr(v)[i + 1], "del0"); s.pc.append(ax)
                    E.set_seq(s, o, res); return SV(NULL, NONE)
                for s2, r in E.fork_exc(s1, sq.len(v) > 0, upd, "IndexError", t):
                    yield s2, (("raise", r) if isinstance(r, Exc) else None)
            else:
                raise Unsupported("del on %s" % o.ty)
        return
    if isinstance(t, ast.Name):
        st.loc.pop(t.id, None); yield st, None; return
    raise Unsupported("del target")


def container_method(E, n, st, recv, m, args, kw):
    ct = E.content_type(recv) if recv.ty.sort == Ref else None
    # ------------------------------------------------ list / deque
    if isinstance(ct, ListT):
        sq, v = E.seq_of(st, recv)
        if m == "__init__":
            E.set_seq(st, recv, sq.mk(z3.IntVal(0), sq.arr(v))); yield st, SV(NULL, NONE); return
        if m == "append":
            x = E.coerce(args[0], sq.elem).v
            E.set_seq(st, recv, sq.mk(sq.len(v) + 1, z3.Store(sq.arr(v), sq.len(v), x))); yield st, SV(NULL, NONE); return
        if m == "pop" and not args:
            def upd(s):
                E.set_seq(s, recv, sq.mk(sq.len(v) - 1, sq.arr(v))); return SV(sq.arr(v)[sq.len(v) - 1], sq.elem)
            yield from E.fork_exc(st, sq.len(v) > 0, upd, "IndexError", n); return
        if m == "pop" and len(args) == 1 and E.static_int(args[0]) == 0:
            def upd(s):
                res, ax = E.seq_define(sq, sq.len(v) - 1, lambda i: sq.arr(v)[i + 1], "pop0"); s.pc.append(ax)
                E.set_seq(s, recv, res); return SV(sq.arr(v)[0], sq.elem)
            yield from E.fork_exc(st, sq.len(v) > 0, upd, "IndexError", n); return
        if m == "insert" and E.static_int(args[0]) == 0:
            x = E.coerce(args[1], sq.elem).v
            res, ax = E.seq_define(sq, sq.len(v) + 1, lambda i: z3.If(i == 0, x, sq.arr(v)[i - 1]), "ins0"); st.pc.append(ax)
            E.set_seq(st, recv, res); yield st, SV(NULL, NONE); return
        if m == "copy":
            r = E.alloc(st, ListT(sq.elem, ct.kind), "copy"); E.set_seq(st, r, v); yield st, r; return
        if m == "clear":
            E.set_seq(st, recv, sq.mk(z3.IntVal(0), sq.arr(v))); yield st, SV(NULL, NONE); return
        if m == "remove":
            # removes the FIRST occurrence; ValueError if absent
            x = E.coerce(args[0], sq.elem).v
            p = E.fresh("pos", I); j = E.fresh("j", I)
            present = E.seq_contains(sq, v, x)
            def upd(s):
                s.pc.append(z3.And(0 <= p, p < sq.len(v), sq.arr(v)[p] == x,
                                   z3.ForAll([j], z3.Implies(z3.And(0 <= j, j < p), sq.arr(v)[j] != x))))
                res, ax = E.seq_define(sq, sq.len(v) - 1, lambda i: z3.If(i < p, sq.arr(v)[i], sq.arr(v)[i + 1]), "rm"); s.pc.append(ax)
                # the same definition read from the old list's side (a consequence, stated for the instantiation heuristics)
                q = E.fresh("q", I)
                s.pc.append(z3.ForAll([q], z3.Implies(z3.And(0 <= q, q < sq.len(v), q != p),
                                                      sq.arr(v)[q] == sq.arr(res)[z3.If(q < p, q, q - 1)])))
                E.set_seq(s, recv, res); return SV(NULL, NONE)
            yield from E.fork_exc(st, present, upd, "ValueError", n); return
        if m == "extend":
            sq2, v2 = E.seq_of(st, args[0])
            E.set_seq(st, recv, E.seq_concat(sq, v, v2, st).v); yield st, SV(NULL, NONE); return
    if isinstance(recv.ty, SeqT) and m in ("index", "count"):
        raise Unsupported("seq.%s" % m)
    # ------------------------------------------------ set
    if isinstance(ct, SetT):
        e, mem = E.set_of(st, recv)
        if m == "add":
            E.put_set(st, recv, z3.Store(mem, E.coerce(args[0], e).v, True)); yield st, SV(NULL, NONE); return
        if m == "discard":
            E.put_set(st, recv, z3.Store(mem, E.coerce(args[0], e).v, False)); yield st, SV(NULL, NONE); return
        if m == "remove":
            x = E.coerce(args[0], e).v
            def upd(s):
                E.put_set(s, recv, z3.Store(mem, x, False)); return SV(NULL, NONE)
            yield from E.fork_exc(st, mem[x], upd, "KeyError", n); return
        if m == "update":
            e2, mem2 = E.set_of(st, args[0]) if not isinstance(args[0].ty, SetVT) else (args[0].ty.elem, args[0].v)
            x = E.fresh("x", e.sort); arr = E.fresh("upd", z3.ArraySort(e.sort, B))
            st.pc.append(z3.ForAll([x], arr[x] == z3.Or(mem[x], mem2[x])))
            E.put_set(st, recv, arr); yield st, SV(NULL, NONE); return
        if m == "copy":
            r = E.alloc(st, SetT(e), "copy"); E.put_set(st, r, mem); yield st, r; return
        if m == "clear":
            E.put_set(st, recv, z3.K(e.sort, False)); yield st, SV(NULL, NONE); return
    # ------------------------------------------------ dict
    if isinstance(ct, DictT):
        e, dom = E.set_of(st, recv); _, val = E.dict_val(st, recv)
        if m == "get":
            k = E.coerce(args[0], ct.k).v
            d = E.coerce(args[1] if len(args) > 1 else SV(NULL, NONE), ct.v)
            yield st, SV(z3.If(dom[k], val[k], d.v), ct.v); return
        if m == "setdefault":
            k = E.coerce(args[0], ct.k).v; d = E.coerce(args[1], ct.v)
            res = z3.If(dom[k], val[k], d.v)
            E.put_dict_val(st, recv, z3.Store(val, k, res)); E.put_set(st, recv, z3.Store(dom, k, True))
            if ct.ordered: raise Unsupported("setdefault on ordered dict")
            yield st, SV(res, ct.v); return
        if m in ("pop", "del_item") and len(args) == 1 and not ct.ordered:
            # del_item: ImplDict.del_item = dict.__delitem__ + notify() (the namespace-staleness notification is not modelled)
            k = E.coerce(args[0], ct.k).v
            def upd(s):
                E.put_set(s, recv, z3.Store(dom, k, False)); return SV(val[k], ct.v)
            yield from E.fork_exc(st, dom[k], upd, "KeyError", n); return
        if m == "clear" and not ct.ordered:
            E.put_set(st, recv, z3.K(ct.k.sort, False)); yield st, SV(NULL, NONE); return
        if m in ("keys",):
            yield st, recv; return
    # ------------------------------------------------ graph
    if isinstance(ct, GraphT):
        e, nodes = E.set_of(st, recv); _, ed = E.edges_of(st, recv)
        es = ct.elem.sort
        if m == "has_node":
            yield st, SV(nodes[E.coerce(args[0], ct.elem).v], BOOL); return
        if m == "add_node":
            E.put_set(st, recv, z3.Store(nodes, E.coerce(args[0], ct.elem).v, True)); yield st, SV(NULL, NONE); return
        if m == "add_edge":
            a, b = E.coerce(args[0], ct.elem).v, E.coerce(args[1], ct.elem).v
            E.put_set(st, recv, z3.Store(z3.Store(nodes, a, True), b, True))
            E.put_edges(st, recv, z3.Store(ed, a, z3.Store(ed[a], b, True))); yield st, SV(NULL, NONE); return
        if m == "remove_node":
            x = E.coerce(args[0], ct.elem).v
            def upd(s):
                a, b = E.fresh("a", es), E.fresh("b", es)
                ne = E.fresh("edges", ed.sort())
                s.pc.append(z3.ForAll([a, b], ne[a][b] == z3.And(ed[a][b], a != x, b != x)))
                E.put_set(s, recv, z3.Store(nodes, x, False)); E.put_edges(s, recv, ne); return SV(NULL, NONE)
            yield from E.fork_exc(st, nodes[x], upd, "NetworkXError", n); return
        if m == "remove_nodes_from":
            # silently ignores absent nodes
            xs = args[0]
            if isinstance(xs.ty, SetVT) and xs.ty.elem is NODE and ct.elem is RNODE:
                y = E.fresh("y", es); rm = E.fresh("rmset", z3.ArraySort(es, B))
                st.pc.append(z3.ForAll([y], rm[y] == z3.And(T.RNode.is_nd(y), xs.v[T.RNode.nd_node(y)])))
            elif isinstance(xs.ty, SetVT): rm = xs.v
            else:
                ctx = E.content_type(xs) if xs.ty.sort == Ref else None
                if isinstance(ctx, (SetT, DictT)): _, rm = E.set_of(st, xs)
                else:
                    sq, v = E.seq_of(st, xs)
                    x = E.fresh("x", es); i = E.fresh("i", I)
                    rm = E.fresh("rmset", z3.ArraySort(es, B))
                    st.pc.append(z3.ForAll([x], rm[x] == z3.Exists([i], z3.And(0 <= i, i < sq.len(v), sq.arr(v)[i] == x))))
            a, b = E.fresh("a", es), E.fresh("b", es)
            nn = E.fresh("nodes", nodes.sort()); ne = E.fresh("edges", ed.sort())
            st.pc.append(z3.ForAll([a], nn[a] == z3.And(nodes[a], z3.Not(rm[a]))))
            st.pc.append(z3.ForAll([a, b], ne[a][b] == z3.And(ed[a][b], z3.Not(rm[a]), z3.Not(rm[b]))))
            E.put_set(st, recv, nn); E.put_edges(st, recv, ne); yield st, SV(NULL, NONE); return
        if m == "in_edges" and len(args) == 1:
            x = E.coerce(args[0], ct.elem).v
            pt = TupT([ct.elem, ct.elem]); T.register_sort(pt.sort)
            def mk(s_):
                e = E.fresh("e", pt.sort); arr = E.fresh("inedges", z3.ArraySort(pt.sort, B))
                s_.pc.append(z3.ForAll([e], arr[e] == z3.And(pt.get(e, 1) == x, ed[pt.get(e, 0)][pt.get(e, 1)])))
                return SV(arr, SetVT(pt))
            yield from E.fork_exc(st, nodes[x], mk, "NetworkXError", n); return
        if m == "out_degree":
            x = E.coerce(args[0], ct.elem).v
            od = z3.Function("out_degree_" + T._sname(es), ed.sort(), es, I)
            b = E.fresh("b", es)
            def mk(s):
                s.pc.append(od(ed, x) >= 0)
                s.pc.append((od(ed, x) == 0) == z3.Not(z3.Exists([b], ed[x][b])))
                return SV(od(ed, x), INT)
            yield from E.fork_exc(st, nodes[x], mk, "NetworkXError", n); return
        if m == "degree":
            x = E.coerce(args[0], ct.elem).v
            dg = z3.Function("degree_" + T._sname(es), ed.sort(), es, I)
            b = E.fresh("b", es)
            def mk(s):
                s.pc.append(dg(ed, x) >= 0)
                s.pc.append((dg(ed, x) == 0) == z3.Not(z3.Exists([b], z3.Or(ed[x][b], ed[b][x]))))
                return SV(dg(ed, x), INT)
            yield from E.fork_exc(st, nodes[x], mk, "NetworkXError", n); return
    raise Unsupported("method %s on %s at line %s" % (m, recv.ty, getattr(n, "lineno", "?")))


# ---------------------------------------------------------------------------------------------- modular call rule
def bind_params(E, c, recv, args, kw, n, st=None):
    names = list(c.params)
    bound = {}
    if recv is not None and names and names[0] != "self" and c.cls is not None:
        recv = None            # a staticmethod called through an instance: the receiver is not passed
    if recv is not None:
        bound[names[0]] = recv; names = names[1:]
    for nm, a in zip(names, args): bound[nm] = a
    if len(args) > len(names): raise Unsupported("too many arguments for %s" % c.qual)
    for k, v in kw.items():
        if k not in c.params: raise Unsupported("unknown keyword %s for %s" % (k, c.qual))
        bound[k] = v
    missing = [p for p in c.params if p not in bound]
    if missing:
        defaults = callee_defaults(E, c)
        for p in missing:
            if p not in defaults: raise Unsupported("argument %s of %s missing" % (p, c.qual))
            bound[p] = E.const(defaults[p])
    return {p: E.coerce(bound[p], E.ptype(c.params[p]), st) for p in c.params}


_defaults_cache = {}


def callee_defaults(E, c):
    if c.target in _defaults_cache: return _defaults_cache[c.target]
    out = {}
    if c.file != "extern":
        from .spec import find_function
        fn, _, _ = find_function(E.repo, c.file, c.qual)
        pos = fn.args.posonlyargs + fn.args.args
        for a, d in zip(pos[len(pos) - len(fn.args.defaults):], fn.args.defaults):
            if isinstance(d, ast.Constant): out[a.arg] = d.value
        for a, d in zip(fn.args.kwonlyargs, fn.args.kw_defaults):
            if isinstance(d, ast.Constant): out[a.arg] = d.value
    out.update(getattr(c, "defaults", {}) or {})
    _defaults_cache[c.target] = out
    return out


def apply_contract(E, c, recv, args, kw, st, n):
    """assert requires; havoc modifies; assume ensures (normal edge) / raises[T] (one edge per declared T)."""
    # the current contract may name another (trusted, more abstract) view of a callee for its own call sites
    if E.cur_contract is not None and c.qual in getattr(E.cur_contract, "views", {}):
        c = E.reg.contracts[E.cur_contract.views[c.qual]]
    def matches(cc, pr):
        return pr is not None and all(pr[nm].py is not None and pr[nm].py == val for nm, val in cc.static.items())
    try:
        params = bind_params(E, c, recv, args, kw, n, st)
    except Unsupported:
        if not getattr(c, "variants", []): raise
        params = None           # the call does not fit the base signature: one of the variants may
    if not matches(c, params):
        for alt in getattr(c, "variants", []):
            try:
                pa = bind_params(E, alt, recv, args, kw, n, st)
            except Unsupported:
                continue
            if matches(alt, pa):
                c, params = alt, pa; break
        else:
            raise Unsupported("%s is not specified for these static arguments (line %s)" % (c.qual, getattr(n, "lineno", "?")))
    pre = st.copy(); pre.loc = dict(params)           # callee's view of the pre-state
    ev_pre = SpecEval(E, pre, pre, {})
    line = getattr(n, "lineno", 0)
    for cl in c.requires:
        f_req = ev_pre.bool(cl.ast)
        E.oblige(st, "call-requires", "%s@L%d/%s" % (c.qual, line - E.base_line, cl.label), f_req, line, cl.text)
        E.assume(st, f_req)
    # termination of direct recursion
    if E.cur_contract is c and c.decreases:
        d_new = SpecEval(E, pre, pre, {}).term(ast.parse(c.decreases, mode="eval").body).v
        d_old = SpecEval(E, E.old, E.old, {}).term(ast.parse(c.decreases, mode="eval").body).v
        E.oblige(st, "decreases", "%s@L%d" % (c.qual, line - E.base_line), z3.And(d_old >= 0, d_new < d_old), line, c.decreases)

    def post_state(tag):
        s2 = st.copy()
        if not c.pure:
            tmp = s2.copy(); tmp.loc = dict(params)
            if c.alloc:
                al0 = s2.H("alloc", B); al1 = E.fresh("alloc", al0.sort()); r = E.fresh("r", Ref)
                s2.pc.append(z3.ForAll([r], z3.Implies(al0[r], al1[r]))); s2.setH("alloc", al1)
            saved_old = E.old
            E.old = pre
            try:
                E.havoc_locs(s2, pre, c.modifies, "call_%s" % c.name)
            finally:
                E.old = saved_old
        return s2

    # ---- normal edge
    n_out = 0
    if not getattr(c, "never_returns", False):
        s2 = post_state("ret")
        rty = E.ptype(c.returns) if c.returns else NONE
        res = SV(NULL, NONE) if rty is NONE else E.fresh_sv("ret_" + c.name, rty)
        if isinstance(rty, SeqT) and not isinstance(rty, PathT): s2.pc.append(rty.len(res.v) >= 0)
        view = s2.copy(); view.loc = dict(params)
        ev = SpecEval(E, view, pre, {"result": res})
        for cl in c.ensures:
            E.assume(s2, ev.bool(cl.ast))
        s2.pc.extend(view.pc[len(s2.pc):]) if len(view.pc) > len(s2.pc) else None
        if E.feasible(s2):
            n_out += 1
            yield s2, res
    # ---- exceptional edges
    for tag, clauses in c.raises.items():
        s3 = post_state("exc")
        eref = E.alloc(s3, RefT(tag if tag != "*" else "BaseException"), "exc")
        view = s3.copy(); view.loc = dict(params)
        ev = SpecEval(E, view, pre, {"raised": eref})
        for cl in clauses:
            E.assume(s3, ev.bool(cl.ast))
        if E.feasible(s3):
            n_out += 1
            s3.trace.append("L%d:%s!%s" % (line - E.base_line, c.name, tag))
            yield s3, Exc(None if tag == "*" else tag, eref.v, "%s at line %s" % (c.qual, line))
    if n_out == 0 and E.feasible(st):
        # vacuity guard: a feasible call state from which the callee's contract admits no outcome at all means the contract
        # (or its use here) is contradictory; silently dropping the path would make everything after the call "proved"
        raise SpecError("the contract of %s admits no outcome at its call in line %s (contradictory ensures/raises)" % (c.qual, line))
