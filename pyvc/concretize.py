"""Replay of a counter-model on the real code — for module-level pure functions over ints, booleans, strings,
dotted names and tuples of strings (DESIGN.md section 2.9 states what is and is not covered).

The solver's model is turned into Python argument values, the REAL function is called under /venv/bin/python, and the
failed clause is evaluated on the real result by a small interpreter of the clause language (same text, Python
semantics).  reproduced=True  -> the real code violates the clause for these inputs (a genuine counterexample);
reproduced=False -> the counter-model is spurious (abstraction too coarse / solver artefact): the obligation is undecided;
reproduced=None  -> this kind of target/clause cannot be replayed.
"""
import ast, json, os, subprocess, tempfile
import z3
from .ty import *
from . import ty as T

VENV_PY = "/venv/bin/python"

def _names(model, term, cache, prefix):
    key = str(model.eval(term, model_completion=True))
    if key not in cache:
        cache[key] = "%s%d" % (prefix, len(cache))
    return cache[key]


def value_of(model, sv_term, ty, names, eng):
    """Python literal (as source text) for a model value of a supported type, else None."""
    ev = lambda t: model.eval(t, model_completion=True)
    if ty is INT: return repr(ev(sv_term).as_long())
    if ty is BOOL: return repr(z3.is_true(ev(sv_term)))
    if ty is NAME:
        if z3.is_true(ev(sv_term == EPS)): return repr("")
        return repr(_names(model, sv_term, names.setdefault("name", {}), "n"))
    if ty is STR:
        rep = z3.Function("str_repeat", Str, I, Str); dot = eng.strconst(".")
        for n in range(0, 6):
            if z3.is_true(ev(sv_term == rep(dot, z3.IntVal(n)))): return repr("." * n)
        for s, c in getattr(eng, "_strs", {}).items():
            if z3.is_true(ev(sv_term == c)): return repr(s)
        return repr(_names(model, sv_term, names.setdefault("str", {}), "s"))
    if isinstance(ty, PathT):
        n = ev(ty.len(sv_term)).as_long()
        if n == 0: return "None"
        if n < 0 or n > 8: return None
        parts = [ast.literal_eval(value_of(model, ty.arr(sv_term)[i], NAME, names, eng)) for i in range(n)]
        return repr(".".join(parts))
    if isinstance(ty, SeqT):
        n = ev(ty.len(sv_term)).as_long()
        if n < 0 or n > 8: return None
        parts = [value_of(model, ty.arr(sv_term)[i], ty.elem, names, eng) for i in range(n)]
        if any(p is None for p in parts): return None
        return "(" + ", ".join(parts) + ("," if n == 1 else "") + ")"
    return None


class PyClause(ast.NodeTransformer):
    """Rewrite a clause into executable Python over the concrete values (only the forms used by the pure contracts)."""
    def __init__(self, macros, path_params):
        self.macros, self.path_params = macros, path_params

    def visit_Call(self, n):
        self.generic_visit(n)
        if isinstance(n.func, ast.Name):
            if n.func.id == "old": return n.args[0]
            if n.func.id == "implies" and len(n.args) == 2:      # lazily, as in the logic (the consequent may be undefined)
                return ast.BoolOp(op=ast.Or(), values=[ast.UnaryOp(op=ast.Not(), operand=n.args[0]), n.args[1]])
            if n.func.id == "ite" and len(n.args) == 3:
                return ast.IfExp(test=n.args[0], body=n.args[1], orelse=n.args[2])
            if n.func.id == "len": return ast.Call(func=ast.Name(id="_len", ctx=ast.Load()), args=n.args, keywords=[])
            if n.func.id in self.macros:
                params, body = self.macros[n.func.id]
                sub = {p: a for p, a in zip(params, n.args)}
                class S(ast.NodeTransformer):
                    def visit_Name(s, m): return sub.get(m.id, m)
                import copy
                return self.visit(S().visit(copy.deepcopy(body)))
        return n

    def visit_Subscript(self, n):
        self.generic_visit(n)
        return ast.Call(func=ast.Name(id="_idx", ctx=ast.Load()), args=[n.value, ast.Constant(value=ast.unparse(n.slice))], keywords=[]) \
            if False else ast.Subscript(value=ast.Call(func=ast.Name(id="_seq", ctx=ast.Load()), args=[n.value], keywords=[]), slice=n.slice, ctx=ast.Load())

    def visit_Compare(self, n):
        self.generic_visit(n)
        return ast.Call(func=ast.Name(id="_cmp", ctx=ast.Load()),
                        args=[ast.Constant(value=[type(o).__name__ for o in n.ops]), n.left] + n.comparators, keywords=[])


HARNESS = r'''
import sys, json
sys.path.insert(0, REPO)
def implies(a, b): return (not a) or b
def iff(a, b): return bool(a) == bool(b)
def ite(c, a, b): return a if c else b
def dots(n): return "." * n
def path_empty(): return ""
def every(sort):
    # integer quantifiers are evaluated over a window that contains every index / length of the (<= 8 long) inputs;
    # a witness outside it would make an `any` look false, so the inputs are kept small and the window wide
    assert sort == "int"
    return range(-64, 65)
def _seq(x):
    # dotted names are compared / indexed component-wise in the contracts
    if isinstance(x, str) and PATHY: return tuple(x.split("."))
    return x
def _len(x): return len(_seq(x))
def _norm(x):
    if isinstance(x, (list, tuple)): return tuple(_norm(e) for e in x)
    if isinstance(x, str) and PATHY: return tuple(x.split("."))
    return x
def _cmp(ops, *vals):
    ok = True
    for op, a, b in zip(ops, vals, vals[1:]):
        if op in ("Is", "IsNot") and (a is None or b is None):
            r = (a is None) == (b is None) if op == "Is" else (a is None) != (b is None)
        elif op in ("Eq", "Is"): r = _norm(a) == _norm(b)
        elif op in ("NotEq", "IsNot"): r = _norm(a) != _norm(b)
        elif op == "Lt": r = a < b
        elif op == "LtE": r = a <= b
        elif op == "Gt": r = a > b
        elif op == "GtE": r = a >= b
        elif op == "In": r = _norm(a) in _norm(b)
        elif op == "NotIn": r = _norm(a) not in _norm(b)
        else: raise NotImplementedError(op)
        ok = ok and r
    return ok
'''


def replayable(c):
    """module-level function whose parameters are all of a kind value_of() can turn into Python values"""
    if c.cls is not None: return False
    for nm, ts in c.params.items():
        ty = parse_type(ts)
        if not (ty is INT or ty is BOOL or ty is STR or ty is NAME or isinstance(ty, PathT) or (isinstance(ty, SeqT) and (ty.elem is STR or ty.elem is NAME))):
            return False
    return True


def replay(reg, repo, c, ob):
    """ob: discharged obligation dict with '_model'.  Returns a dict for the replay file or None."""
    model = ob.get("_model")
    if model is None or c.cls is not None or ob.get("kind") not in ("ensures",) and not str(ob.get("kind", "")).startswith("raises"):
        return None
    from .engine import Engine
    eng = Engine(reg, repo)          # for string constants (names are global in z3)
    names = {}
    args = {}
    pathy = False
    for nm, ts in c.params.items():
        ty = parse_type(ts)
        if isinstance(ty, PathT) or (isinstance(ty, SeqT) and ty.elem is NAME): pathy = True
        if nm in c.static:
            args[nm] = repr(c.static[nm]); continue
        v = value_of(model, z3.Const("arg_" + nm, ty.sort), ty, names, eng)
        if v is None: return None
        args[nm] = v
    clause = next((cl for cl in (c.ensures + [x for v in c.raises.values() for x in v]) if cl.label == ob["label"]), None)
    if clause is None: return None
    for x in ast.walk(clause.ast):
        if isinstance(x, ast.Call) and isinstance(x.func, ast.Name) and x.func.id == "every":
            if not (x.args and isinstance(x.args[0], ast.Constant) and x.args[0].value == "int"):
                return None     # quantifier over heap objects: not executable
    macros = {k: v for k, v in reg.specfuns.items() if isinstance(v, tuple)}
    import copy
    tree = PyClause(macros, None).visit(copy.deepcopy(clause.ast))
    ast.fix_missing_locations(tree)
    expr = ast.unparse(tree)
    mod = c.file[:-3].replace("/", ".")
    call = "%s(%s)" % (c.qual, ", ".join("%s=%s" % (k, v) for k, v in args.items()))
    script = ("import os\nREPO = os.environ.get('MODELX_VERIF_REPO', '/repo')\nPATHY = %r\n" % (pathy,)) + HARNESS + (
        "from %s import %s\n" % (mod, c.qual) +
        "".join("%s = %s\n" % (k, v) for k, v in args.items()) +
        "raised = None\ntry:\n    result = %s\nexcept Exception as e:\n    result = None; raised = e\n" % call +
        "print('inputs:', %s)\nprint('result:', repr(result), 'raised:', repr(raised))\n" % ", ".join("%r, %s" % (k, k) for k in args) +
        ("expected_exc = %r\n" % (ob["kind"][7:-1] if ob["kind"].startswith("raises") else None)) +
        "if expected_exc is None and raised is not None: print('raised instead of returning'); sys.exit(1 if %r else 0)\n" % (not c.raises) +
        "if expected_exc is not None and raised is None: print('clause is about the exceptional exit, call returned'); sys.exit(0)\n" +
        "ok = bool(%s)\nprint('clause %s holds:' , ok)\nsys.exit(0 if ok else 1)\n" % (expr, clause.label))
    fd, tmp = tempfile.mkstemp(prefix="mxcx_", suffix=".py"); os.close(fd)
    try:
        open(tmp, "w").write(script)
        p = subprocess.run([VENV_PY, tmp], stdout=subprocess.PIPE, stderr=subprocess.STDOUT, text=True, timeout=60,
                           env=dict(os.environ, MODELX_VERIF_REPO=repo))
        out = p.stdout[-2000:]
        reproduced = True if p.returncode == 1 and "Traceback" not in out else (False if p.returncode == 0 else None)
    finally:
        os.unlink(tmp)
    return {"inputs": args, "call": call, "script": script, "reproduced": reproduced, "output": out}
