"""Discharging verification conditions: z3 first, cvc5 on z3's unknowns, then a bounded refutation search
(DESIGN.md section 2.5).  `proved` is never derived from a bounded query."""
import time, re
import z3


def _collect_len_terms(fs, limit=200):
    """all applications of a sequence-length accessor (slen) in the formulas"""
    seen, out, todo = set(), [], list(fs)
    while todo and len(out) < limit:
        t = todo.pop()
        if t.get_id() in seen: continue
        seen.add(t.get_id())
        if z3.is_app(t):
            if t.decl().name() == "slen" and z3.is_int(t):
                out.append(t)
            todo.extend(t.children())
        elif z3.is_quantifier(t):
            todo.append(t.body())
    return out


def check_z3(hyps, goal, timeout_ms, seed=0):
    s = z3.Solver()
    s.set("timeout", timeout_ms)
    if seed: s.set("random_seed", seed)
    s.add(*hyps); s.add(z3.Not(goal))
    t0 = time.time()
    r = s.check()
    return r, s, time.time() - t0


def check_cvc5(solver, timeout_ms):
    """Second back end on the same SMT-LIB text.  Returns 'unsat' | 'sat' | 'unknown'."""
    try:
        import cvc5
        txt = solver.to_smt2()
        if "(lambda" in txt or "(_ as-array" in txt:
            return "unknown", 0.0
        # z3 prints an empty conjunction / disjunction as the bare symbol `and` / `or`
        txt = re.sub(r"(?<![(\w!.|-])and(?![\w!.|-])", "true", txt)
        txt = re.sub(r"(?<![(\w!.|-])or(?![\w!.|-])", "false", txt)
        txt = "(set-logic ALL)\n" + txt
        t0 = time.time()
        slv = cvc5.Solver()
        slv.setOption("tlimit-per", str(timeout_ms))
        slv.setOption("produce-models", "false")
        sm = cvc5.SymbolManager(slv) if hasattr(cvc5, "SymbolManager") else None
        parser = cvc5.InputParser(slv, sm)
        parser.setStringInput(cvc5.InputLanguage.SMT_LIB_2_6, txt, "vc")
        res = "unknown"
        while True:
            cmd = parser.nextCommand()
            if cmd.isNull(): break
            out = cmd.invoke(slv, sm)
            out = str(out).strip()
            if out in ("sat", "unsat", "unknown"): res = out
        return res, time.time() - t0
    except Exception as e:      # parse problems etc. are not verdicts
        return "unknown", 0.0


def model_text(m, limit=4000):
    try:
        parts = []
        for d in m.decls():
            nm = d.name()
            if nm.startswith(("k!", "elem!")): continue
            parts.append("%s = %s" % (nm, m[d]))
        return "\n".join(sorted(parts))[:limit]
    except Exception as e:
        return "<model unavailable: %s>" % e


def conjuncts(g):
    if z3.is_and(g):
        out = []
        for ch in g.children(): out += conjuncts(ch)
        return out
    if z3.is_implies(g):
        a, b = g.children()
        cs = conjuncts(b)
        if len(cs) > 1: return [z3.Implies(a, c) for c in cs]
    return [g]


_SYM_CACHE = {}
_ALLOCISH = frozenset()
_Q_CACHE = {}


def _has_quantifier(t):
    k = t.get_id()
    c = _Q_CACHE.get(k)
    if c is not None and c[0].eq(t): return c[1]
    seen, todo, r = set(), [t], False
    while todo:
        x = todo.pop()
        if x.get_id() in seen: continue
        seen.add(x.get_id())
        if z3.is_quantifier(x): r = True; break
        if z3.is_app(x): todo.extend(x.children())
    _Q_CACHE[k] = (t, r)
    return r


def _symbols(t):
    """names of the uninterpreted constants / functions of a formula (cached per AST)"""
    k = t.get_id()
    c = _SYM_CACHE.get(k)
    if c is not None and c[0].eq(t): return c[1]
    out, seen, todo = set(), set(), [t]
    while todo:
        x = todo.pop()
        if x.get_id() in seen: continue
        seen.add(x.get_id())
        if z3.is_quantifier(x): todo.append(x.body()); continue
        if z3.is_app(x):
            if x.decl().kind() == z3.Z3_OP_UNINTERPRETED: out.add(x.decl().name())
            todo.extend(x.children())
    out = frozenset(out)
    _SYM_CACHE[k] = (t, out)
    return out


def relevant_hyps(hyps, goal, rounds=4, rare=10):
    """A subset of the hypotheses connected to the goal through shared symbols (first round: any symbol; later rounds: only
    symbols that occur in few hypotheses).  Proving from a subset is sound; it is only tried first because it is fast."""
    syms = [_symbols(h) for h in hyps]
    freq = {}
    for ss in syms:
        for x in ss: freq[x] = freq.get(x, 0) + 1
    frontier = set(_symbols(goal)); chosen = [False] * len(hyps)
    for rnd in range(rounds):
        new = set()
        for i, ss in enumerate(syms):
            if chosen[i]: continue
            if any((x in frontier) and (rnd == 0 or freq[x] <= rare) for x in ss):
                chosen[i] = True; new |= ss
        if not new: break
        frontier |= new
    return [h for h, c in zip(hyps, chosen) if c]


def prove_one(hyps, goal, quick, retry=False, window=False):
    """returns (status, backend, model|None, solver).
    Budgets are z3 resource limits (deterministic, independent of machine load) with a generous wall-clock backstop."""
    M = 1000000
    if retry: budgets = [(False, 70 * M, 240000)]      # no MBQI here: with large budgets it has been seen to ignore both limits
    elif quick: budgets = [(False, 5 * M, 20000), (True, 8 * M, 30000)]
    else: budgets = [(False, 70 * M, 240000), (True, 20 * M, 120000)]
    last = None
    if len(hyps) > 40:
        # cheap first attempts from subsets of the hypotheses (sound: a proof from fewer hypotheses is a proof)
        ground = [h for h in hyps if not _has_quantifier(h) or _symbols(h) <= _ALLOCISH or all(x.startswith(("alloc", "H0!alloc", "r!")) for x in _symbols(h))]
        for sub in (ground, relevant_hyps(hyps, goal)):
            if len(sub) < len(hyps):
                s0 = z3.Solver(); s0.set("timeout", 15000); s0.set("rlimit", 3 * M); s0.set("smt.mbqi", False)
                s0.add(*sub); s0.add(z3.Not(goal))
                if s0.check() == z3.unsat: return "proved", "z3", None, s0
    for k, (mbqi, rlimit, tmo) in enumerate(budgets):
        s = z3.Solver(); s.set("timeout", tmo); s.set("rlimit", rlimit); s.set("smt.mbqi", mbqi)
        s.add(*hyps); s.add(z3.Not(goal))
        r = s.check(); last = s
        if r == z3.unsat: return "proved", "z3", None, s
        if k == 0 and r != z3.sat:
            # second back end early: cvc5 often decides in milliseconds what z3's E-matching does not find
            r2, _ = check_cvc5(s, 8000 if quick and not retry else 30000)
            if r2 == "unsat": return "proved", "cvc5", None, s
        if r == z3.sat and mbqi:      # models found without MBQI may ignore quantifiers
            big = s.model()
            # prefer a small counter-model (replayable on the real code) when there is one
            lens = _collect_len_terms(list(hyps) + [goal])
            for bound in (2, 3):
                s3 = z3.Solver(); s3.set("timeout", 10000); s3.set("rlimit", 6 * M)
                s3.add(*hyps); s3.add(z3.Not(goal)); s3.add(*[l <= bound for l in lens])
                if s3.check() == z3.sat:
                    return "refuted", "z3+small-model(len<=%d)" % bound, s3.model(), s3
            return "refuted", "z3", big, s
    if not quick or retry:
        r2, _ = check_cvc5(last, 60000)
        if r2 == "unsat": return "proved", "cvc5", None, last
    # bounded refutation search (never yields 'proved')
    lens = _collect_len_terms(list(hyps) + [goal])
    # counter-model searches only where a counter-model can be replayed on the real code (pure module-level functions);
    # elsewhere an undischarged obligation is reported as such (and z3 has been seen to ignore its limits in these searches)
    for bound in ((2, 3) if window else ()):
        s3 = z3.Solver(); s3.set("timeout", 20000); s3.set("rlimit", 6 * M)
        s3.add(*hyps); s3.add(z3.Not(goal)); s3.add(*[l <= bound for l in lens])
        if s3.check() == z3.sat:
            return "refuted", "z3-bounded(len<=%d)" % bound, s3.model(), s3
    # windowed search: integer quantifiers expanded over a small window.  Such a model is only a CANDIDATE (facts outside the
    # window are ignored); it is reported as a counterexample only if its replay on the real code reproduces (runner)
    try:
        if not window: raise RuntimeError("windowed search only for targets whose counter-models can be replayed")
        bound = 3
        fs = [expand_int_quantifiers(f, range(-1, bound + 3)) for f in list(hyps) + [z3.Not(goal)]]
        s4 = z3.Solver(); s4.set("timeout", 20000); s4.set("rlimit", 6 * M)
        s4.add(*fs); s4.add(*[l <= bound for l in lens])
        if s4.check() == z3.sat:
            return "candidate", "z3-window(len<=%d)" % bound, s4.model(), last
    except Exception:
        pass
    return "undecided", "z3+cvc5" if (not quick or retry) else "z3", None, last


def expand_int_quantifiers(f, window, _cache=None, _budget=None):
    """Quantifiers whose bound variables are all integers become finite conjunctions / disjunctions over `window`."""
    import itertools
    cache = {} if _cache is None else _cache
    budget = [4000] if _budget is None else _budget
    k = f.get_id()
    if k in cache and cache[k][0].eq(f): return cache[k][1]
    if z3.is_quantifier(f) and not f.is_lambda() and all(f.var_sort(i) == z3.IntSort() for i in range(f.num_vars())) \
            and len(window) ** f.num_vars() <= 400:
        n = f.num_vars(); insts = []
        for vals in itertools.product(window, repeat=n):
            budget[0] -= 1
            if budget[0] < 0: raise RuntimeError("expansion budget")
            # de Bruijn: variable index 0 is the LAST bound variable
            inst = z3.substitute_vars(f.body(), *[z3.IntVal(v) for v in reversed(vals)])
            insts.append(expand_int_quantifiers(inst, window, cache, budget))
        r = z3.And(*insts) if f.is_forall() else z3.Or(*insts)
    elif z3.is_app(f) and f.num_args() > 0:
        ch = [expand_int_quantifiers(c, window, cache, budget) for c in f.children()]
        r = f if all(a.eq(b) for a, b in zip(ch, f.children())) else f.decl()(*ch)
    else:
        r = f
    cache[k] = (f, r)
    return r


# ---------------------------------------------------------------------------------------------- proof hints
# A hint names, for one conjunct of one obligation, a small subset of the quantified hypotheses from which it was proved
# before (found by greedy deletion, bin/mkhints).  A proof from a subset of the CURRENT hypotheses is a proof, so using a
# hint is sound whatever it contains; a stale hint just fails and the full hypothesis set is used as before.
_HINTS = None
_HKEY_CACHE = {}


def hint_key(h):
    k = h.get_id()
    c = _HKEY_CACHE.get(k)
    if c is not None and c[0].eq(h): return c[1]
    import hashlib
    txt = re.sub(r"![0-9]+", "!", h.sexpr())        # fresh-name counters shift with unrelated edits
    v = hashlib.sha1(txt.encode()).hexdigest()[:10]
    _HKEY_CACHE[k] = (h, v)
    return v


def load_hints():
    global _HINTS
    if _HINTS is None:
        import os, json
        p = os.path.join(os.path.dirname(os.path.dirname(os.path.abspath(__file__))), "proof_hints.json")
        try: _HINTS = json.load(open(p))
        except Exception: _HINTS = {}
    return _HINTS


def try_hint(hyps, goal, keys):
    keys = set(keys)
    sub = [h for h in hyps if not _has_quantifier(h) or hint_key(h) in keys]
    if len(sub) == len(hyps): return None
    s0 = z3.Solver(); s0.set("timeout", 30000); s0.set("rlimit", 10 * 1000000); s0.set("smt.mbqi", False)
    s0.add(*sub); s0.add(z3.Not(goal))
    return s0 if s0.check() == z3.unsat else None


def minimise(hyps, goal, t_proof, deadline_s=240):
    """Greedy (chunked) deletion of quantified hypotheses; returns the hint keys of a subset that still proves the goal
    quickly, or None."""
    M = 1000000
    qs = [h for h in hyps if _has_quantifier(h)]
    gr = [h for h in hyps if not _has_quantifier(h)]
    t_end = time.time() + deadline_s
    def ok(sub, tmo):
        s = z3.Solver(); s.set("timeout", int(tmo * 1000)); s.set("rlimit", 40 * M); s.set("smt.mbqi", False)
        s.add(*gr); s.add(*sub); s.add(z3.Not(goal))
        return s.check() == z3.unsat
    keep = list(qs)
    tmo = min(60.0, max(4.0, 1.5 * t_proof))
    chunk = max(1, len(keep) // 4)
    proved_once = False
    while chunk >= 1 and time.time() < t_end:
        i = 0
        while i < len(keep) and time.time() < t_end:
            trial = keep[:i] + keep[i + chunk:]
            if ok(trial, tmo):
                keep = trial; proved_once = True; tmo = min(tmo, 8.0)
            else:
                i += chunk
        chunk //= 2
    if not proved_once: return None
    if not ok(keep, 10.0): return None
    return sorted({hint_key(h) for h in keep})


def discharge(ob, quick=True, retry=False):
    """ob: dict with hyps, goal.  The goal is split into its conjuncts, each proved separately."""
    import os
    t_all = time.time()
    status, backends = "proved", set()
    hints = load_hints().get(ob.get("id") or "", {}) if ob.get("id") else {}
    mk = os.environ.get("PYVC_MKHINTS")
    for ci, g in enumerate(conjuncts(ob["goal"])):
        hk = hints.get(str(ci))
        if hk is not None and not mk:
            if isinstance(hk, dict) and hk.get("cvc5"):
                # recorded: z3 does not find this proof, cvc5 does -- ask cvc5 first (same hypotheses, same goal)
                s0 = z3.Solver(); s0.add(*ob["hyps"]); s0.add(z3.Not(g))
                r2, _ = check_cvc5(s0, 120000)
                if r2 == "unsat":
                    backends.add("cvc5(hint)"); continue
            else:
                s = try_hint(ob["hyps"], g, hk)
                if s is not None:
                    backends.add("z3(hint)"); continue
        t_c = time.time()
        st, be, model, s = prove_one(ob["hyps"], g, quick, retry, window=bool(ob.get("replayable")))
        t_c = time.time() - t_c
        if mk and st == "proved" and (t_c > float(mk) or retry):
            hk2 = minimise(ob["hyps"], g, t_c)
            if hk2 is not None: ob.setdefault("hint_out", {})[str(ci)] = hk2
            elif be == "cvc5": ob.setdefault("hint_out", {})[str(ci)] = {"cvc5": 1}
        elif st == "undecided" and (retry or mk or not quick):
            # last resort: search for a subset of the quantified hypotheses from which the goal follows quickly (the full
            # set can drown the instantiation heuristics); a proof from a subset is a proof
            hk2 = minimise(ob["hyps"], g, 4.0, deadline_s=(300 if mk else 60))
            if hk2 is not None:
                st, be = "proved", "z3(subset-search)"
                if mk: ob.setdefault("hint_out", {})[str(ci)] = hk2
        backends.add(be)
        if st == "proved":
            if not quick and not retry:
                r2, _ = check_cvc5(s, 20000)
                if r2 == "sat":
                    ob["status"] = "fault"; ob["why"] = "solver disagreement: z3 unsat, cvc5 sat"; ob["backend"] = "z3+cvc5"
                    ob["time_s"] = round(time.time() - t_all, 3); return ob
                if r2 == "unsat": backends.add("cvc5-agrees")
            continue
        if st == "refuted":
            status = "refuted"; ob["model"] = model_text(model); ob["_model"] = model; ob["failed_conjunct"] = str(g)[:2000]
            break
        if st == "candidate":
            ob["_model"] = model; ob["candidate_model"] = model_text(model)
        status = "undecided"; ob["failed_conjunct"] = str(g)[:2000]
    ob["status"] = status
    ob["backend"] = "+".join(sorted(backends))
    ob["time_s"] = round(time.time() - t_all, 3)
    return ob
