"""Discharging verification conditions: z3 first, cvc5 on z3's unknowns, then a bounded refutation search
(DESIGN.md section 2.5).  `proved` is never derived from a bounded query."""
import time, re
import z3


def _collect_len_terms(fs, limit=200):
    """all applications of a sequence-length accessor (slen) in the formulas"""
    seen, out, todo = set(), [], list(fs)
    while todo and len(out) < limit:
        t = todo.pop()
        if t.get_id() in seen: continue
        seen.add(t.get_id())
        if z3.is_app(t):
            if t.decl().name() == "slen" and z3.is_int(t):
                out.append(t)
            todo.extend(t.children())
        elif z3.is_quantifier(t):
            todo.append(t.body())
    return out


def check_z3(hyps, goal, timeout_ms, seed=0):
    s = z3.Solver()
    s.set("timeout", timeout_ms)
    if seed: s.set("random_seed", seed)
    s.add(*hyps); s.add(z3.Not(goal))
    t0 = time.time()
    r = s.check()
    return r, s, time.time() - t0


def check_cvc5(solver, timeout_ms):
    """Second back end on the same SMT-LIB text.  Returns 'unsat' | 'sat' | 'unknown'."""
    try:
        import cvc5
        txt = solver.to_smt2()
        if "(lambda" in txt or "(_ as-array" in txt:
            return "unknown", 0.0
        txt = "(set-logic ALL)\n" + txt
        t0 = time.time()
        slv = cvc5.Solver()
        slv.setOption("tlimit-per", str(timeout_ms))
        slv.setOption("produce-models", "false")
        sm = cvc5.SymbolManager(slv) if hasattr(cvc5, "SymbolManager") else None
        parser = cvc5.InputParser(slv, sm)
        parser.setStringInput(cvc5.InputLanguage.SMT_LIB_2_6, txt, "vc")
        res = "unknown"
        while True:
            cmd = parser.nextCommand()
            if cmd.isNull(): break
            out = cmd.invoke(slv, sm)
            out = str(out).strip()
            if out in ("sat", "unsat", "unknown"): res = out
        return res, time.time() - t0
    except Exception as e:      # parse problems etc. are not verdicts
        return "unknown", 0.0


def model_text(m, limit=4000):
    try:
        parts = []
        for d in m.decls():
            nm = d.name()
            if nm.startswith(("k!", "elem!")): continue
            parts.append("%s = %s" % (nm, m[d]))
        return "\n".join(sorted(parts))[:limit]
    except Exception as e:
        return "<model unavailable: %s>" % e


def conjuncts(g):
    if z3.is_and(g):
        out = []
        for ch in g.children(): out += conjuncts(ch)
        return out
    if z3.is_implies(g):
        a, b = g.children()
        cs = conjuncts(b)
        if len(cs) > 1: return [z3.Implies(a, c) for c in cs]
    return [g]


def prove_one(hyps, goal, quick, retry=False):
    """returns (status, backend, model|None, solver).
    Budgets are z3 resource limits (deterministic, independent of machine load) with a generous wall-clock backstop."""
    M = 1000000
    if retry: budgets = [(False, 70 * M, 240000), (True, 40 * M, 120000)]
    elif quick: budgets = [(False, 5 * M, 20000), (True, 8 * M, 30000)]
    else: budgets = [(False, 70 * M, 240000), (True, 80 * M, 240000)]
    last = None
    for mbqi, rlimit, tmo in budgets:
        s = z3.Solver(); s.set("timeout", tmo); s.set("rlimit", rlimit); s.set("smt.mbqi", mbqi)
        s.add(*hyps); s.add(z3.Not(goal))
        r = s.check(); last = s
        if r == z3.unsat: return "proved", "z3", None, s
        if r == z3.sat and mbqi: return "refuted", "z3", s.model(), s     # models found without MBQI may ignore quantifiers
    if not quick or retry:
        r2, _ = check_cvc5(last, 60000)
        if r2 == "unsat": return "proved", "cvc5", None, last
    # bounded refutation search (never yields 'proved')
    lens = _collect_len_terms(list(hyps) + [goal])
    for bound in (2, 3):
        s3 = z3.Solver(); s3.set("timeout", 20000); s3.set("rlimit", 6 * M)
        s3.add(*hyps); s3.add(z3.Not(goal)); s3.add(*[l <= bound for l in lens])
        if s3.check() == z3.sat:
            return "refuted", "z3-bounded(len<=%d)" % bound, s3.model(), s3
    return "undecided", "z3+cvc5" if (not quick or retry) else "z3", None, last


def discharge(ob, quick=True, retry=False):
    """ob: dict with hyps, goal.  The goal is split into its conjuncts, each proved separately."""
    t_all = time.time()
    status, backends = "proved", set()
    for g in conjuncts(ob["goal"]):
        st, be, model, s = prove_one(ob["hyps"], g, quick, retry)
        backends.add(be)
        if st == "proved":
            if not quick and not retry:
                r2, _ = check_cvc5(s, 20000)
                if r2 == "sat":
                    ob["status"] = "fault"; ob["why"] = "solver disagreement: z3 unsat, cvc5 sat"; ob["backend"] = "z3+cvc5"
                    ob["time_s"] = round(time.time() - t_all, 3); return ob
                if r2 == "unsat": backends.add("cvc5-agrees")
            continue
        if st == "refuted":
            status = "refuted"; ob["model"] = model_text(model); ob["_model"] = model; ob["failed_conjunct"] = str(g)[:2000]
            break
        status = "undecided"; ob["failed_conjunct"] = str(g)[:2000]
    ob["status"] = status
    ob["backend"] = "+".join(sorted(backends))
    ob["time_s"] = round(time.time() - t_all, 3)
    return ob
