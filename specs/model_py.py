"""Contracts for the dependency graphs and clearing functions of modelx/core/model.py and the value
operations of modelx/core/cells.py (C02 C06 C08 C09 C13)."""
import z3
from pyvc.ty import *

M = "modelx/core/model.py"
C = "modelx/core/cells.py"

# G1 (cache/graph agreement, the part the clearing functions need): every item node in the graph holds a datum
HELD = "all(implies(has_node(g, n) and is_item(n), key(n) in obj(n).data) for n in every('node'))"
# heap shape: distinct cells have distinct data dicts and input-key sets; dicts and sets of one cells differ
SEP = ("all(implies(c1 is not c2, c1.data is not c2.data and c1.input_keys is not c2.input_keys)"
       " for c1 in every('CellsImpl') for c2 in every('CellsImpl'))")


def register(R, P):
    # ---- spec functions ---------------------------------------------------------------------------------
    @R.specfun("reach")
    def reach(ev, g, src):
        """Desc(G, src): nodes reachable from src by >= 0 edges (reflexive-transitive closure), as a pure set.
        Axioms instantiated for this (edge relation, source): reflexive, closed under edges, every member other
        than src has a predecessor in the set (trusted mathematics, DESIGN section 5)."""
        E = ev.eng
        ct, ed = E.edges_of(ev.st, g)
        s = E.coerce(src, ct.elem).v
        D = E.desc_fun(ct.elem)(ed, s)
        key = ("desc", ed.get_id(), s.get_id())
        seen = getattr(E, "_desc_seen", None)
        if seen is None: seen = E._desc_seen = set()
        if key not in seen:
            seen.add(key)
            a, b = E.fresh("a", ct.elem.sort), E.fresh("b", ct.elem.sort)
            E.axioms.append(D[s])
            E.axioms.append(z3.ForAll([a, b], z3.Implies(z3.And(D[a], ed[a][b]), D[b])))
            E.axioms.append(z3.ForAll([b], z3.Implies(z3.And(D[b], b != s), z3.Exists([a], z3.And(D[a], ed[a][b])))))
        return SV(D, SetVT(ct.elem))

    # trace graph: edges lead from a callee (element, or object node of an uncached cells) to the cached ELEMENT
    # that called it; endpoints are nodes of the graph
    R.macro("GWF", ["g"], "all(implies(has_edge(g, a, b), has_node(g, a) and has_node(g, b) and is_item(b)) for a in every('node') for b in every('node'))")
    # reference graph: edges lead from a reference to an element that read it, endpoints are nodes of the graph
    R.macro("RGWF", ["g"], "all(implies(has_edge(g, a, b), has_node(g, a) and has_node(g, b) and not is_nd(a) and is_nd(b) and is_item(nd_of(b))) for a in every('rnode') for b in every('rnode'))")
    def _setting_funs(E, st):
        A = st.H("f:allow_none", Val); Pa = st.H("f:parent", Ref)
        F = z3.Function("setting_of", A.sort(), Pa.sort(), Ref, Val)
        Hs = z3.Function("has_setting", A.sort(), Pa.sort(), Ref, B)
        return A, Pa, F, Hs

    def _unfold(E, A, Pa, F, Hs, x):
        """one-step unfolding of the recursive definitions at x (and at x's parent)"""
        seen = getattr(E, "_unf_seen", None)
        if seen is None: seen = E._unf_seen = set()
        for y in (x, Pa[x]):
            k = (A.get_id(), Pa.get_id(), y.get_id())
            if k in seen: continue
            seen.add(k)
            E.axioms.append(F(A, Pa, y) == z3.If(A[y] != VNONE, A[y], F(A, Pa, Pa[y])))
            E.axioms.append(Hs(A, Pa, y) == z3.Or(A[y] != VNONE, z3.And(Pa[y] != NULL, Hs(A, Pa, Pa[y]))))

    @R.specfun("setting_of")
    def setting_of(ev, x):
        """the allow_none setting in force for x: its own if not None, else its parent's (recursively)"""
        A, Pa, F, Hs = _setting_funs(ev.eng, ev.st); _unfold(ev.eng, A, Pa, F, Hs, x.v)
        return SV(F(A, Pa, x.v), VAL)

    @R.specfun("has_setting")
    def has_setting(ev, x):
        A, Pa, F, Hs = _setting_funs(ev.eng, ev.st); _unfold(ev.eng, A, Pa, F, Hs, x.v)
        return SV(Hs(A, Pa, x.v), BOOL)

    @R.specfun("allow_none_of")
    def allow_none_of(ev, x):
        s = setting_of(ev, x)
        return SV(ev.eng.truth(s, ev.st), BOOL)

    R.macro("HELD", ["g"], HELD)
    # single-model scope: every element recorded in a model's graph belongs to that model (the cross-model branch of the
    # clearing loops -- a dependant living in another model is cleared through its own model -- is bounded only, C19 driver)
    R.macro("OWN", ["m"], "all(implies(has_node(m.tracegraph, n), obj(n).model is m) for n in every('node'))")
    # INPUT-KEEP (DESIGN C06): a value assigned by the user was computed from nothing: its element has no in-edge
    R.macro("INPUT_BARE", ["g"], "all(implies(has_edge(g, a, b), key(b) not in obj(b).input_keys) for a in every('node') for b in every('node'))")
    R.macro("REFS_OK", ["g", "refs"], "all(has_node(g, refs[j]) and not is_nd(refs[j]) for j in range(len(refs)))"
            " and all(implies(j1 != j2, refs[j1] != refs[j2]) for j1 in range(len(refs)) for j2 in range(len(refs)))")
    R.macro("SEP", [], SEP)

    # ---- TraceGraph -------------------------------------------------------------------------------------
    R.contract(M + "::TraceGraph.remove_with_descs",
        params={"self": "TraceGraph", "source": "node"}, returns="set[node]",
        requires=["GWF(self)"],
        ensures=[
            "FRESH:: fresh(result)",
            # C06: exactly the element and everything computed from it, directly or transitively
            "RESULT:: all((n in result) == (old(has_node(self, source)) and (n in old(reach(self, source)))) for n in every('node'))",
            "NODES:: all(has_node(self, n) == (old(has_node(self, n)) and n not in result) for n in every('node'))",
            "EDGES:: all(has_edge(self, a, b) == (old(has_edge(self, a, b)) and a not in result and b not in result)"
            " for a in every('node') for b in every('node'))",
            "SUBSET:: all(implies(n in result, old(has_node(self, n))) for n in every('node'))",
            "GWF:: GWF(self)",
        ],
        modifies=["content(self)"], alloc=True)

    R.contract(M + "::TraceGraph.get_nodes_with",
        params={"self": "TraceGraph", "obj": "NodeObj"}, returns="set[node]",
        ensures=["FRESH:: fresh(result)",
                 "RESULT:: all((n in result) == (has_node(self, n) and obj(n) is obj) for n in every('node'))"],
        locals={"result": "set[node]"},
        loops={0: {"inv": ["all((n in result) == (n in _done and obj(n) is obj) for n in every('node'))", "fresh(result)"],
                   "modifies": ["content(result)"]}},
        modifies=[], alloc=True)

    R.contract(M + "::TraceGraph.get_startnodes_from",
        params={"self": "TraceGraph", "node": "node"}, returns="list[node]",
        requires=["GWF(self)"],
        ensures=[
            # C06 (recalc option): exactly the leaves among the dependents
            "LEAVES:: all((n in elems(result)) == (has_node(self, node) and n in reach(self, node) and n != node"
            " and not any(has_edge(self, n, b) for b in every('node'))) for n in every('node'))",
            "UNCHANGED:: unchanged(self)",
        ],
        modifies=[], alloc=True)

    # ---- CellsImpl value operations -------------------------------------------------------------------------
    R.contract(C + "::CellsImpl.on_clear_trace",
        params={"self": "CellsImpl", "key": "key"},
        requires=["key in self.data", "self.data is not self.input_keys"],
        ensures=["GONE:: key not in self.data and key not in self.input_keys",
                 "OTHERS:: all(implies(k != key, (k in self.data) == old(k in self.data) and (k in self.input_keys) == old(k in self.input_keys)"
                 " and self.data[k] == old(self.data[k])) for k in every('key'))"],
        modifies=["content(self.data)", "content(self.input_keys)"])

    R.contract(C + "::CellsImpl.has_node",
        params={"self": "CellsImpl", "key": "key"}, returns="bool",
        ensures=["result == (key in self.data)"], modifies=[])

    P.setdefault("_model", {})["graph"] = ["TraceGraph.remove_with_descs", "TraceGraph.get_nodes_with",
                                           "TraceGraph.get_startnodes_from", "CellsImpl.on_clear_trace", "CellsImpl.has_node"]


def register2(R, P):
    R.contract(M + "::TraceGraph.clear_obj",
        params={"self": "TraceGraph", "obj": "NodeObj"}, returns="set[node]",
        requires=["GWF(self)"],
        ensures=[
            "FRESH:: fresh(result)",
            # C02/C09/C13: no element of obj remains (incl. the object node of an uncached cells) ...
            "NO-OBJ:: all(not (has_node(self, n) and obj(n) is obj) for n in every('node'))",
            # ... nor anything computed from one (the removed set is closed under the old successor relation)
            "CLOSED:: all(implies(a in result and old(has_edge(self, a, b)), b in result) for a in every('node') for b in every('node'))",
            "NODES:: all(has_node(self, n) == (old(has_node(self, n)) and n not in result) for n in every('node'))",
            "EDGES:: all(has_edge(self, a, b) == (old(has_edge(self, a, b)) and a not in result and b not in result)"
            " for a in every('node') for b in every('node'))",
            "SUBSET:: all(implies(n in result, old(has_node(self, n))) for n in every('node'))",
            "GWF:: GWF(self)",
        ],
        locals={"removed": "set[node]"},
        loops={0: {"inv": [
            "fresh(removed) and removed is not obj_nodes",
            "all(has_node(self, n) == (old(has_node(self, n)) and n not in removed) for n in every('node'))",
            "all(has_edge(self, a, b) == (old(has_edge(self, a, b)) and a not in removed and b not in removed) for a in every('node') for b in every('node'))",
            "all(implies(a in removed and old(has_edge(self, a, b)), b in removed) for a in every('node') for b in every('node'))",
            "all(implies(n in removed, old(has_node(self, n))) for n in every('node'))",
            "all(implies(n in _done, n in removed) for n in every('node'))",
            "all((n in obj_nodes) == (old(has_node(self, n)) and obj(n) is obj) for n in every('node'))",
            "GWF(self)",
        ], "modifies": ["content(self)", "content(removed)"]}},
        modifies=["content(self)"], alloc=True)

    # ---- ReferenceGraph: reference --r--> element that read it by attribute path ------------------------------
    R.contract(M + "::ReferenceGraph.remove_with_referred",
        params={"self": "ReferenceGraph", "nodes": "setv[node]"},
        requires=["RGWF(self)"],
        ensures=[
            "GONE:: all(implies(n in nodes, not has_node(self, n)) for n in every('node'))",
            # exactly the edges into removed elements disappear; edges of the other elements stay (R1 keeps holding)
            "EDGES:: all(has_edge(self, a, b) == (old(has_edge(self, a, b)) and not (is_nd(a) and nd_of(a) in nodes) and not (is_nd(b) and nd_of(b) in nodes))"
            " for a in every('rnode') for b in every('rnode'))",
            "SHRINK:: all(implies(has_node(self, a), old(has_node(self, a))) for a in every('rnode'))",
            "KEEP:: all(implies(old(has_node(self, a)) and any(has_edge(self, a, b) or has_edge(self, b, a) for b in every('rnode')), has_node(self, a)) for a in every('rnode'))",
            "RGWF:: RGWF(self)",
        ],
        locals={"refs": "list[rnode]"},
        loops={
            0: {"inv": ["fresh(refs)", "unchanged(self)", "REFS_OK(self, refs)"], "modifies": ["content(refs)"]},
            1: {"inv": ["fresh(refs)", "unchanged(self)", "REFS_OK(self, refs)", "has_node(self, n)"], "modifies": ["content(refs)"]},
            2: {"inv": [
                "all(has_node(self, _s[j]) and not is_nd(_s[j]) for j in range(_i, len(_s)))",
                "all(implies(j1 != j2, _s[j1] != _s[j2]) for j1 in range(len(_s)) for j2 in range(len(_s)))",
                "all(implies(n in nodes, not has_node(self, n)) for n in every('node'))",
                "all(has_edge(self, a, b) == (old(has_edge(self, a, b)) and not (is_nd(a) and nd_of(a) in nodes) and not (is_nd(b) and nd_of(b) in nodes))"
                " for a in every('rnode') for b in every('rnode'))",
                "all(implies(has_node(self, a), old(has_node(self, a))) for a in every('rnode'))",
                "all(implies(old(has_node(self, a)) and any(has_edge(self, a, b) or has_edge(self, b, a) for b in every('rnode')), has_node(self, a)) for a in every('rnode'))",
                "RGWF(self)",
            ], "modifies": ["content(self)"]}},
        modifies=["content(self)"], alloc=True)

    R.contract(M + "::ReferenceGraph.remove_with_descs",
        params={"self": "ReferenceGraph", "ref": "ReferenceImpl"}, returns="set[rnode]",
        requires=["RGWF(self)"],
        ensures=[
            "FRESH:: fresh(result)",
            # every element that read `ref` by attribute path (directly recorded edge) is reported
            "REFERRERS:: all(implies(old(has_edge(self, rf(ref), x)), x in result) for x in every('rnode'))",
            "RESULT:: all((x in result) == (old(has_node(self, rf(ref))) and x in old(reach(self, rf(ref))) and x != rf(ref)) for x in every('rnode'))",
            "REF-GONE:: not has_node(self, rf(ref))",
            "NODES:: all(has_node(self, x) == (old(has_node(self, x)) and x not in result and x != rf(ref)) for x in every('rnode'))",
            "RGWF:: RGWF(self)",
        ],
        modifies=["content(self)"], alloc=True)
    P["_model"]["graph"] += ["TraceGraph.clear_obj", "ReferenceGraph.remove_with_referred", "ReferenceGraph.remove_with_descs"]


def register3(R, P):
    # heap shape used by the clearing loops: one data dict / input-key set per cells, all distinct
    PRE = ["GWF(self.tracegraph)", "RGWF(self.refgraph)", "HELD(self.tracegraph)", "OWN(self)", "SEP()",
           "all(c.data is not d.input_keys for c in every('CellsImpl') for d in every('CellsImpl'))"]
    # what every clearing function owes (C02 C06): with R = the removed set,
    #   nodes/edges of G shrink by exactly R; every item in R lost its datum and its input flag;
    #   no other datum changed; G stays consistent with the cache (HELD) and well-formed
    CLEARED_LOOP = [
        "all(implies(is_item(n), (key(n) in obj(n).data) == (old(key(n) in obj(n).data) and n not in _done)) for n in every('node'))",
        "all(implies(is_item(n) and key(n) in obj(n).data, obj(n).data[key(n)] == old(obj(n).data[key(n)])) for n in every('node'))",
        "all(implies(is_item(n), (key(n) in obj(n).input_keys) == (old(key(n) in obj(n).input_keys) and n not in _done)) for n in every('node'))",
    ]
    R.contract(M + "::TraceManager.clear_with_descs",
        params={"self": "ModelImpl", "node": "node"},
        requires=PRE,      # node: an element, or the object node (cells,) of an uncached cells
        ensures=[
            # C06: precisely the element and its transitive dependents are discarded ...
            "EXACT:: all(implies(is_item(n), (key(n) in obj(n).data) == (old(key(n) in obj(n).data) and not (old(has_node(self.tracegraph, node)) and n in old(reach(self.tracegraph, node)))))"
            " for n in every('node'))",
            # ... every other held value stays as it was
            "OTHERS-KEPT:: all(implies(is_item(n) and key(n) in obj(n).data, obj(n).data[key(n)] == old(obj(n).data[key(n)])) for n in every('node'))",
            "INPUT-FLAGS:: all(implies(is_item(n), (key(n) in obj(n).input_keys) == (old(key(n) in obj(n).input_keys) and not (old(has_node(self.tracegraph, node)) and n in old(reach(self.tracegraph, node)))))"
            " for n in every('node'))",
            "NODES:: all(has_node(self.tracegraph, n) == (old(has_node(self.tracegraph, n)) and not (old(has_node(self.tracegraph, node)) and n in old(reach(self.tracegraph, node)))) for n in every('node'))",
            "EDGES:: all(has_edge(self.tracegraph, a, b) == (old(has_edge(self.tracegraph, a, b)) and has_node(self.tracegraph, a) and has_node(self.tracegraph, b))"
            " for a in every('node') for b in every('node'))",
            "HELD:: HELD(self.tracegraph)", "GWF:: GWF(self.tracegraph)", "RGWF:: RGWF(self.refgraph)",
            # R1 keeps holding: no reference edge points at a discarded element
            "REF-EDGES:: all(implies(has_edge(self.refgraph, a, b), is_nd(b) and old(has_edge(self.refgraph, a, b)) and has_node(self.tracegraph, nd_of(b)) == old(has_node(self.tracegraph, nd_of(b))))"
            " for a in every('rnode') for b in every('rnode'))" if False else
            "REF-EDGES:: all(has_edge(self.refgraph, a, b) == (old(has_edge(self.refgraph, a, b)) and not (old(has_node(self.tracegraph, node)) and nd_of(b) in old(reach(self.tracegraph, node))))"
            " for a in every('rnode') for b in every('rnode'))",
        ],
        loops={0: {"inv": CLEARED_LOOP, "modifies": ["every_content('dict[key,val]')", "every_content('set[key]')"]}},
        modifies=["content(self.tracegraph)", "content(self.refgraph)", "every_content('dict[key,val]')", "every_content('set[key]')"],
        alloc=True)
    P["_model"]["graph"] += ["TraceManager.clear_with_descs"]


def register4(R, P):
    PRE = ["GWF(self.model.tracegraph)", "RGWF(self.model.refgraph)", "HELD(self.model.tracegraph)", "OWN(self.model)", "SEP()",
           "all(c.data is not d.input_keys for c in every('CellsImpl') for d in every('CellsImpl'))"]
    MOD = ["content(self.model.tracegraph)", "content(self.model.refgraph)", "every_content('dict[key,val]')", "every_content('set[key]')"]
    DISCARD = ("all(implies(is_item(n), (key(n) in obj(n).data) == (old(key(n) in obj(n).data) and not (%s and n in old(reach(self.model.tracegraph, item(self, key))))))"
               " for n in every('node'))")
    KEPT = "all(implies(is_item(n) and key(n) in obj(n).data, obj(n).data[key(n)] == old(obj(n).data[key(n)])) for n in every('node'))"
    COND_CLEAR = "old(key in self.data) and old(has_node(self.model.tracegraph, item(self, key))) and (clear_input or old(key not in self.input_keys))"
    R.contract(C + "::CellsImpl.clear_value_at",
        params={"self": "CellsImpl", "key": "key", "clear_input": "bool"},
        requires=PRE + ["all(implies(k in self.input_keys, k in self.data) for k in every('key'))"],
        ensures=[
            # C06: inputs survive unless clear_input; otherwise exactly the element and its dependents go
            "EXACT:: " + DISCARD % ("(" + COND_CLEAR + ")"),
            "OTHERS-KEPT:: " + KEPT,
            "INPUT-KEPT:: implies(not clear_input and old(key in self.input_keys), key in self.data and key in self.input_keys)",
            "REMOVED-LOSE-DATA:: all(implies(is_item(n) and old(has_node(self.model.tracegraph, n)) and not has_node(self.model.tracegraph, n), key(n) not in obj(n).data) for n in every('node'))",
            "REMOVED-LOSE-INPUT:: all(implies(is_item(n) and old(has_node(self.model.tracegraph, n)) and not has_node(self.model.tracegraph, n), key(n) not in obj(n).input_keys) for n in every('node'))",
            "CLOSED:: all(implies(old(has_edge(self.model.tracegraph, a, b)) and old(has_node(self.model.tracegraph, a)) and not has_node(self.model.tracegraph, a), not has_node(self.model.tracegraph, b)) for a in every('node') for b in every('node'))",
            "INPUT-FLAGS:: all(implies(is_item(n), (key(n) in obj(n).input_keys) == (old(key(n) in obj(n).input_keys) and not ((%s) and n in old(reach(self.model.tracegraph, item(self, key))))))"
            " for n in every('node'))" % COND_CLEAR,
            "NODES:: all(has_node(self.model.tracegraph, n) == (old(has_node(self.model.tracegraph, n)) and not ((%s) and n in old(reach(self.model.tracegraph, item(self, key))))) for n in every('node'))" % COND_CLEAR,
            "EDGES:: all(has_edge(self.model.tracegraph, a, b) == (old(has_edge(self.model.tracegraph, a, b)) and has_node(self.model.tracegraph, a) and has_node(self.model.tracegraph, b))"
            " for a in every('node') for b in every('node'))",
            "HELD:: HELD(self.model.tracegraph)", "GWF:: GWF(self.model.tracegraph)", "RGWF:: RGWF(self.model.refgraph)",
        ],
        modifies=MOD, alloc=True)

    R.contract(C + "::CellsImpl._store_value",
        params={"self": "CellsImpl", "key": "key", "value": "val"}, returns="val",
        requires=["has_setting(self)"],
        ensures=[
            "RESULT:: result == value",
            "STORED:: key in self.data and self.data[key] == value",
            "OTHERS:: all(implies(k != key, (k in self.data) == old(k in self.data) and self.data[k] == old(self.data[k])) for k in every('key'))",
            "NONE-ALLOWED:: implies(value is None, allow_none_of(self))",
        ],
        raises={"NoneReturnedError": [
            # C05/C11: a None that is not allowed is rejected and nothing is stored
            "REJECTED:: value is None and not allow_none_of(self)",
            "UNCHANGED:: unchanged(self.data)",
        ]},
        modifies=["content(self.data)"], alloc=True)

    R.contract("modelx/core/base.py::Impl.get_property",
        params={"self": "Impl", "name": "str"}, returns="val",
        static={"name": "allow_none"},
        requires=["has_setting(self)"],
        ensures=["RESULT:: result == setting_of(self)", "NOT-NONE:: result is not None"],
        note="termination (the chain ends at the model, whose allow_none is never None) is assumed via has_setting",
        modifies=[])
    P["_model"]["cells"] = ["CellsImpl.clear_value_at", "CellsImpl._store_value", "Impl.get_property"]


def register5(R, P):
    R.contract("modelx/core/node.py::key_to_node",
        params={"obj": "NodeObj", "key": "key"}, returns="node",
        ensures=["result == item(obj, key)"], modifies=[])
    R.contract("modelx/core/node.py::tuplize_key",
        params={"obj": "NodeObj", "key": "key", "remove_extra": "bool"}, returns="key",
        static={"remove_extra": False},
        note="keys are modelled already tuplised (sort Key); the non-tuple branch is covered by the bounded driver of C01",
        trusted=True, pure=True, ensures=["result == key"])
    R.contract("modelx/core/node.py::node_has_key",
        params={"node": "node"}, returns="bool",
        ensures=["result == is_item(node)"], modifies=[])
    P["_model"]["cells"] += ["key_to_node", "node_has_key"]


def register6(R, P):
    # system-wide shape: one executor, its call stack is the one the System exposes; every node object belongs to it
    R.macro("SYSINV", ["s"], "s.executor.callstack is s.callstack and s.callstack.executor is s.executor"
                             " and all(c.system is s for c in every('NodeObj'))"
                             " and all(c.model.tracegraph is not c.model.refgraph for c in every('NodeObj'))")
    PRE = ["GWF(self.model.tracegraph)", "RGWF(self.model.refgraph)", "HELD(self.model.tracegraph)", "OWN(self.model)", "SEP()",
           "all(c.data is not d.input_keys for c in every('CellsImpl') for d in every('CellsImpl'))",
           "all(implies(k in self.input_keys, k in self.data) for k in every('key'))"]
    EXEC_PRE = ["SYSINV(self.system)", "WF(self.system.callstack)",
                "implies(not self.system.executor.is_executing, IDLE(self.system.executor))",
                "implies(len(self.system.callstack) == 0, not self.system.executor.is_executing)"]
    MOD_ALL = ["every_content('dict[key,val]')", "every_content('set[key]')", "every_content('graph')", "every_content('graph[rnode]')",
               "content(self.system.executor.refstack)", "content(self.system.executor.rolledback)", "self.system.executor.ghost_runs",
               "content(self.system.callstack)", "content(self.system.callstack.idxstack)", "self.system.callstack.counter",
               "self.system.executor.excinfo", "self.system.executor.errorstack", "self.system.executor.is_executing",
               "self.system.executor.buffer"]

    R.contract(C + "::CellsImpl.get_value_from_key",
        params={"self": "CellsImpl", "key": "key"}, returns="val",
        requires=EXEC_PRE + ["GWF(self.model.tracegraph)", "RGWF(self.model.refgraph)"],
        ensures=[
            "WF:: WF(self.system.callstack)", "IDLE:: implies(not self.system.executor.is_executing, IDLE(self.system.executor))",
            "EXECUTING:: self.system.executor.is_executing == old(self.system.executor.is_executing)",
            "STACK:: unchanged(self.system.callstack)",
            "HIT-VALUE:: implies(old(self.is_cached and key in self.data), result == old(self.data[key]))",
            "DATA-MONO:: all(implies(old(k in c.data), k in c.data and c.data[k] == old(c.data[k])) for c in every('NodeObj') for k in every('key'))",
            "INPUTS:: all(unchanged(c.input_keys) for c in every('CellsImpl'))",
            "GWF:: GWF(self.model.tracegraph)", "RGWF:: RGWF(self.model.refgraph)",
        ],
        raises={"*": [
            "WF:: WF(self.system.callstack)", "IDLE:: implies(not self.system.executor.is_executing, IDLE(self.system.executor))",
            "EXECUTING:: self.system.executor.is_executing == old(self.system.executor.is_executing)",
            "STACK:: unchanged(self.system.callstack)",
            "DATA-MONO:: all(implies(old(k in c.data), k in c.data and c.data[k] == old(c.data[k])) for c in every('NodeObj') for k in every('key'))",
            "INPUTS:: all(unchanged(c.input_keys) for c in every('CellsImpl'))",
            "GWF:: GWF(self.model.tracegraph)", "RGWF:: RGWF(self.model.refgraph)",
        ]},
        modifies=MOD_ALL, alloc=True)

    NODE = "item(self, key)"
    DEP = "(old(has_node(self.model.tracegraph, %s)) and n in old(reach(self.model.tracegraph, %s)))" % (NODE, NODE)
    R.contract(C + "::CellsImpl.set_value_from_key",
        params={"self": "CellsImpl", "key": "key", "value": "val"},
        requires=PRE + EXEC_PRE + ["has_setting(self)", "self.model.system is self.system",
                                   # the recalculation branch is verified for graphs holding only elements of this model
                                   "all(c.model is self.model for c in every('NodeObj'))"],
        ensures=[
            # C06: the assigned value is held, flagged as input ...
            "ASSIGNED:: key in self.data and self.data[key] == value",
            "INPUT-FLAG:: implies(old(len(self.system.callstack)) == 0, key in self.input_keys)",
            # ... outside a formula with the recalculation option off: precisely the dependents are discarded,
            "EXACT:: implies(old(len(self.system.callstack)) == 0 and not self.system._recalc_dependents,"
            " all(implies(is_item(n) and n != %s, (key(n) in obj(n).data) == (old(key(n) in obj(n).data) and not %s)) for n in every('node')))" % (NODE, DEP),
            # every other held value stays and nothing ran
            "OTHERS-KEPT:: implies(not self.system._recalc_dependents,"
            " all(implies(is_item(n) and n != %s and key(n) in obj(n).data, obj(n).data[key(n)] == old(obj(n).data[key(n)])) for n in every('node')))" % NODE,
            "NO-RUN:: implies(not self.system._recalc_dependents, self.system.executor.ghost_runs == old(self.system.executor.ghost_runs))",
            # the element is re-added bare: an input depends on nothing and nothing computed depends on it yet
            "BARE:: implies(old(len(self.system.callstack)) == 0 and not self.system._recalc_dependents,"
            " has_node(self.model.tracegraph, %s) and not any(has_edge(self.model.tracegraph, a, %s) or has_edge(self.model.tracegraph, %s, a) for a in every('node')))" % (NODE, NODE, NODE),
            "HELD:: implies(not self.system._recalc_dependents, HELD(self.model.tracegraph))",
            "GWF:: GWF(self.model.tracegraph)", "RGWF:: RGWF(self.model.refgraph)",
            "WF:: WF(self.system.callstack)",
        ],
        raises={
            # C11: an unassignable value is rejected before anything is discarded
            "NoneReturnedError": ["REJECTED:: value is None and not allow_none_of(self)",
                                  "UNCHANGED:: all(unchanged(c.data, c.input_keys) for c in every('CellsImpl')) and unchanged(self.model.tracegraph, self.model.refgraph)"],
            # assignment to another cells from inside a formula
            "KeyError": ["INSIDE:: old(len(self.system.callstack)) > 0 and old(self.system.callstack[-1]) != %s" % NODE,
                         "UNCHANGED:: all(unchanged(c.data, c.input_keys) for c in every('CellsImpl')) and unchanged(self.model.tracegraph, self.model.refgraph)"],
            # recalculation of a dependent failed (recalc option on): the assignment itself stays
            "*": ["RECALC:: self.system._recalc_dependents and old(len(self.system.callstack)) == 0",
                  "ASSIGNED:: key in self.data and self.data[key] == value and key in self.input_keys"],
        },
        loops={0: {"inv": [
            "key in self.data and self.data[key] == value and key in self.input_keys",
            "WF(self.system.callstack) and len(self.system.callstack) == 0 and IDLE(self.system.executor) and not self.system.executor.is_executing",
            "GWF(self.model.tracegraph)", "RGWF(self.model.refgraph)", "self.system._recalc_dependents",
        ], "modifies": MOD_ALL}},
        modifies=MOD_ALL, alloc=True)

    R.contract(C + "::CellsImpl.clear_all_values",
        params={"self": "CellsImpl", "clear_input": "bool"},
        requires=PRE + ["INPUT_BARE(self.model.tracegraph)",
                        # G1, other half (the library's own check_sanity): every held element of this cells is a node
                        "all(implies(k in self.data, has_node(self.model.tracegraph, item(self, k))) for k in every('key'))"],
        ensures=[
            # C06: inputs survive clear(); every computed value of this cells is gone
            "INPUTS-KEPT:: implies(not clear_input, all(implies(is_item(n) and obj(n) is self and old(key(n) in self.input_keys),"
            " key(n) in self.data and key(n) in self.input_keys and self.data[key(n)] == old(self.data[key(n)])) for n in every('node')))",
            "COMPUTED-GONE:: all(implies(is_item(n) and obj(n) is self and key(n) in self.data, old(key(n) in self.data) and not clear_input and key(n) in self.input_keys) for n in every('node'))",
            # C09 (Q-2/Q-3): for an uncached cells the object node, and with it everything computed through the cells, is gone
            "OBJNODE-GONE:: implies(not self.is_cached, not has_node(self.model.tracegraph, objnode(self)))",
            "REMOVED-LOSE-DATA:: all(implies(is_item(n) and old(has_node(self.model.tracegraph, n)) and not has_node(self.model.tracegraph, n), key(n) not in obj(n).data) for n in every('node'))",
            "SHRINK:: all(implies(has_node(self.model.tracegraph, n), old(has_node(self.model.tracegraph, n))) for n in every('node'))"
            " and all(implies(has_edge(self.model.tracegraph, a, b), old(has_edge(self.model.tracegraph, a, b))) for a in every('node') for b in every('node'))",
            "INPUT-SHRINK:: all(implies(is_item(n) and key(n) in obj(n).input_keys, old(key(n) in obj(n).input_keys)) for n in every('node'))",
            "REMOVED-LOSE-INPUT:: all(implies(is_item(n) and old(has_node(self.model.tracegraph, n)) and not has_node(self.model.tracegraph, n), key(n) not in obj(n).input_keys) for n in every('node'))",
            "CLOSED:: all(implies(old(has_edge(self.model.tracegraph, a, b)) and old(has_node(self.model.tracegraph, a)) and not has_node(self.model.tracegraph, a), not has_node(self.model.tracegraph, b)) for a in every('node') for b in every('node'))",
            "EDGES-RESTRICT:: all(has_edge(self.model.tracegraph, a, b) == (old(has_edge(self.model.tracegraph, a, b)) and has_node(self.model.tracegraph, a) and has_node(self.model.tracegraph, b)) for a in every('node') for b in every('node'))",
            "OTHERS-KEPT:: all(implies(is_item(n) and key(n) in obj(n).data, old(key(n) in obj(n).data) and obj(n).data[key(n)] == old(obj(n).data[key(n)])) for n in every('node'))",
            "HELD:: HELD(self.model.tracegraph)", "GWF:: GWF(self.model.tracegraph)", "RGWF:: RGWF(self.model.refgraph)",
        ],
        loops={0: {"inv": [
            "all(implies(is_item(n) and key(n) in obj(n).data, old(key(n) in obj(n).data) and obj(n).data[key(n)] == old(obj(n).data[key(n)])) for n in every('node'))",
            "all(implies(old(k in self.input_keys) and not clear_input, k in self.data and k in self.input_keys) for k in every('key'))",
            "all(implies(k in self.input_keys, old(k in self.input_keys)) for k in every('key'))",
            "all(implies(j < _i and _s[j] in self.data, not clear_input and _s[j] in self.input_keys) for j in range(len(_s)))",
            "all(implies(k in self.data, old(k in self.data)) for k in every('key'))",
            "HELD(self.model.tracegraph) and GWF(self.model.tracegraph) and RGWF(self.model.refgraph) and SEP() and OWN(self.model)",
            "all(c.data is not d.input_keys for c in every('CellsImpl') for d in every('CellsImpl'))",
            "all(implies(k in self.input_keys, k in self.data) for k in every('key'))",
            "INPUT_BARE(self.model.tracegraph)",
            "all(implies(k in self.data, has_node(self.model.tracegraph, item(self, k))) for k in every('key'))",
            "all(implies(is_item(n) and old(has_node(self.model.tracegraph, n)) and not has_node(self.model.tracegraph, n), key(n) not in obj(n).data) for n in every('node'))",
            "all(implies(has_node(self.model.tracegraph, n), old(has_node(self.model.tracegraph, n))) for n in every('node'))",
            "all(implies(is_item(n) and key(n) in obj(n).input_keys, old(key(n) in obj(n).input_keys)) for n in every('node'))",
            "all(implies(is_item(n) and old(has_node(self.model.tracegraph, n)) and not has_node(self.model.tracegraph, n), key(n) not in obj(n).input_keys) for n in every('node'))",
            "all(implies(old(has_edge(self.model.tracegraph, a, b)) and old(has_node(self.model.tracegraph, a)) and not has_node(self.model.tracegraph, a), not has_node(self.model.tracegraph, b)) for a in every('node') for b in every('node'))",
            "all(has_edge(self.model.tracegraph, a, b) == (old(has_edge(self.model.tracegraph, a, b)) and has_node(self.model.tracegraph, a) and has_node(self.model.tracegraph, b)) for a in every('node') for b in every('node'))",
            "all(implies(has_edge(self.model.tracegraph, a, b), old(has_edge(self.model.tracegraph, a, b))) for a in every('node') for b in every('node'))",
        ], "modifies": ["content(self.model.tracegraph)", "content(self.model.refgraph)", "every_content('dict[key,val]')", "every_content('set[key]')"]}},
        modifies=["content(self.model.tracegraph)", "content(self.model.refgraph)", "every_content('dict[key,val]')", "every_content('set[key]')"],
        alloc=True)
    # dynamic dispatch on node[OBJ] (interface NodeObj): resolved to the CellsImpl contracts — stated assumption; the
    # ItemSpaceParent overrides (on_clear_trace deletes the ItemSpace, get_value_from_key evaluates it) are exercised by the
    # bounded drivers only
    R.contracts["NodeObj.on_clear_trace"] = R.contracts["CellsImpl.on_clear_trace"]
    R.contracts["NodeObj.get_value_from_key"] = R.contracts["CellsImpl.get_value_from_key"]
    P["_model"]["cells"] += ["CellsImpl.get_value_from_key", "CellsImpl.set_value_from_key", "CellsImpl.clear_all_values"]


def register7(R, P):
    PRE = ["GWF(self.tracegraph)", "RGWF(self.refgraph)", "HELD(self.tracegraph)", "OWN(self)", "SEP()",
           "all(c.data is not d.input_keys for c in every('CellsImpl') for d in every('CellsImpl'))"]
    MOD = ["content(self.tracegraph)", "content(self.refgraph)", "every_content('dict[key,val]')", "every_content('set[key]')"]
    GONE_INV = [
        "all(implies(is_item(n), (key(n) in obj(n).data) == (old(key(n) in obj(n).data) and n not in _done)) for n in every('node'))",
        "all(implies(is_item(n) and key(n) in obj(n).data, obj(n).data[key(n)] == old(obj(n).data[key(n)])) for n in every('node'))",
        "all(implies(is_item(n), (key(n) in obj(n).input_keys) == (old(key(n) in obj(n).input_keys) and n not in _done)) for n in every('node'))",
    ]
    R.contract("extern::TraceManager._clear_in_other_model", trusted=True,
        note="the branch for a dependant that belongs to ANOTHER model (static helper): outside the scope of these proofs -- their precondition OWN "
             "(every node of this graph belongs to this model) makes the call unreachable, which is what the call-site obligation states; "
             "cross-model dependants are covered by the bounded drivers of C06 / C19",
        params={"node": "node"}, requires=["UNREACHABLE-IN-SINGLE-MODEL-SCOPE:: False"], ensures=[], modifies=[], alloc=True)
    R.contract(M + "::TraceManager.clear_obj",
        params={"self": "ModelImpl", "obj": "NodeObj"},
        requires=PRE,
        ensures=[
            # C02/C09/C13: no element of obj (nor its object node) remains in the graph ...
            "NO-OBJ:: all(not (has_node(self.tracegraph, n) and obj(n) is obj) for n in every('node'))",
            # ... every value still held was held before, unchanged, and is not computed from a removed element
            "KEPT:: all(implies(is_item(n) and key(n) in obj(n).data, old(key(n) in obj(n).data) and obj(n).data[key(n)] == old(obj(n).data[key(n)])) for n in every('node'))",
            "REMOVED-LOSE-DATA:: all(implies(is_item(n) and old(has_node(self.tracegraph, n)) and not has_node(self.tracegraph, n), key(n) not in obj(n).data) for n in every('node'))",
            "CLOSED:: all(implies(old(has_edge(self.tracegraph, a, b)) and not has_node(self.tracegraph, a) and old(has_node(self.tracegraph, a)), not has_node(self.tracegraph, b)) for a in every('node') for b in every('node'))",
            "SHRINK:: all(implies(has_node(self.tracegraph, n), old(has_node(self.tracegraph, n))) for n in every('node'))",
            "UNTOUCHED:: all(implies(is_item(n) and has_node(self.tracegraph, n) == old(has_node(self.tracegraph, n)), (key(n) in obj(n).data) == old(key(n) in obj(n).data)) for n in every('node'))",
            "HELD:: HELD(self.tracegraph)", "GWF:: GWF(self.tracegraph)", "RGWF:: RGWF(self.refgraph)",
        ],
        loops={0: {"inv": GONE_INV, "modifies": ["every_content('dict[key,val]')", "every_content('set[key]')"]}},
        modifies=MOD, alloc=True)
    P["_model"]["graph"] += ["TraceManager.clear_obj"]


def register8(R, P):
    G = "self.tracegraph"
    PRE = ["GWF(self.tracegraph)", "RGWF(self.refgraph)", "HELD(self.tracegraph)", "OWN(self)", "SEP()",
           "all(c.data is not d.input_keys for c in every('CellsImpl') for d in every('CellsImpl'))",
           "self.tracegraph is not self.refgraph"]
    MOD = ["content(self.tracegraph)", "content(self.refgraph)", "every_content('dict[key,val]')", "every_content('set[key]')"]
    # a datum is present iff it was, and its element is still a node (or never was one), or is in the batch being cleared
    def present(batch):
        return ("all(implies(is_item(n), (key(n) in obj(n).%s) == (old(key(n) in obj(n).%s) and (has_node(self.tracegraph, n) or not old(has_node(self.tracegraph, n))" + batch + ")))"
                " for n in every('node'))")
    COMMON = [
        "all(implies(is_item(n) and key(n) in obj(n).data, obj(n).data[key(n)] == old(obj(n).data[key(n)])) for n in every('node'))",
        "all(implies(has_node(self.tracegraph, n), old(has_node(self.tracegraph, n))) for n in every('node'))",
        "all(has_edge(self.tracegraph, a, b) == (old(has_edge(self.tracegraph, a, b)) and has_node(self.tracegraph, a) and has_node(self.tracegraph, b)) for a in every('node') for b in every('node'))",
        # the removed part is closed under the old successor relation
        "all(implies(old(has_edge(self.tracegraph, a, b)) and old(has_node(self.tracegraph, a)) and not has_node(self.tracegraph, a), not has_node(self.tracegraph, b)) for a in every('node') for b in every('node'))",
    ]
    R.contract(M + "::TraceManager.clear_attr_referrers",
        params={"self": "ModelImpl", "ref": "ReferenceImpl"},
        requires=PRE,
        ensures=[
            # C02 (attribute-path row): every element that read `ref` by attribute path, and everything computed from
            # it, is out of the graph and holds no value
            "REFERRERS-GONE:: all(implies(old(has_edge(self.refgraph, rf(ref), nd(n))), not has_node(self.tracegraph, n)) for n in every('node'))",
            "DATA:: " + present("") % ("data", "data"),
            "INPUT-FLAGS:: " + present("") % ("input_keys", "input_keys"),
            "KEPT:: " + COMMON[0], "SHRINK:: " + COMMON[1], "EDGES:: " + COMMON[2], "CLOSED:: " + COMMON[3],
            "HELD:: HELD(self.tracegraph)", "GWF:: GWF(self.tracegraph)",
        ],
        loops={
            0: {"inv": [present("") % ("data", "data"), present("") % ("input_keys", "input_keys")] + COMMON + [
                    "all(implies(x in _done and is_nd(x), not has_node(self.tracegraph, nd_of(x))) for x in every('rnode'))",
                    "GWF(self.tracegraph)",
                ], "modifies": ["content(self.tracegraph)", "every_content('dict[key,val]')", "every_content('set[key]')"]},
            1: {"inv": [present(" or (n in descs and n not in _done)") % ("data", "data"),
                        present(" or (n in descs and n not in _done)") % ("input_keys", "input_keys")] + COMMON[:1] + [
                    "all(implies(n in descs, is_item(n) and old(has_node(self.tracegraph, n)) and not has_node(self.tracegraph, n)) for n in every('node'))",
                ], "modifies": ["every_content('dict[key,val]')", "every_content('set[key]')"]},
        },
        modifies=MOD, alloc=True)
    P["_model"]["graph"] += ["TraceManager.clear_attr_referrers"]


def register9(R, P):
    PRE = ["GWF(self.model.tracegraph)", "RGWF(self.model.refgraph)", "HELD(self.model.tracegraph)", "OWN(self.model)", "SEP()",
           "all(c.data is not d.input_keys for c in every('CellsImpl') for d in every('CellsImpl'))",
           "all(implies(k in self.input_keys, k in self.data) for k in every('key'))", "INPUT_BARE(self.model.tracegraph)",
           "all(implies(k in self.data, has_node(self.model.tracegraph, item(self, k))) for k in every('key'))"]
    R.contract(C + "::CellsImpl.on_namespace_change",
        params={"self": "CellsImpl"},
        requires=PRE,
        ensures=[
            # C02 (by-name row) / C09: after a change of the names a formula can see, no computed value of this cells remains,
            # nor -- for an uncached cells -- anything computed through it; values assigned by the user stay (C06)
            "COMPUTED-GONE:: all(implies(is_item(n) and obj(n) is self and key(n) in self.data, key(n) in self.input_keys) for n in every('node'))",
            "OBJNODE-GONE:: implies(not self.is_cached, not has_node(self.model.tracegraph, objnode(self)))",
            "INPUTS-KEPT:: all(implies(is_item(n) and obj(n) is self and old(key(n) in self.input_keys), key(n) in self.data and self.data[key(n)] == old(self.data[key(n)])) for n in every('node'))",
            "HELD:: HELD(self.model.tracegraph)", "GWF:: GWF(self.model.tracegraph)",
        ],
        modifies=["content(self.model.tracegraph)", "content(self.model.refgraph)", "every_content('dict[key,val]')", "every_content('set[key]')"],
        alloc=True)
    P["_model"]["cells"] += ["CellsImpl.on_namespace_change"]
