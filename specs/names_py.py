"""Contracts for the name-uniqueness guards of modelx/core/model.py (C12, C11)."""
import z3
from pyvc.ty import *

M = "modelx/core/model.py"


def register(R, P):
    R.cls("ClassObj")
    R.cls("NsHolder", fields={"fresh": "dict[str,object]"})
    R.cls("ParentImpl", bases=("Impl",), fields={"namespace": "dict[str,object]", "_namespace": "NsHolder",
                                                 "cells": "dict[str,object]", "own_refs": "dict[str,object]", "named_spaces": "dict[str,object]"},
          doc="a model or a user space seen through its namespace: `namespace` (a property returning the refreshed chain map of cells, "
              "refs and child spaces) is modelled as a field, equal to `_namespace.fresh`")
    R.cls("SpaceGraph")
    R.cls("SharedSpaceOperations", fields={"model": "ParentImpl", "_graph": "SpaceGraph"})

    @R.specfun("subs")
    def subs(ev, ops, parent):
        """the sub spaces (descendants in the inheritance graph) of `parent`, excluding itself: uninterpreted set"""
        g = ev.eng.get_field(ev.st, ops, "_graph")
        f = z3.Function("subs_of", Ref, Ref, z3.ArraySort(Ref, B))
        return SV(f(g.v, parent.v), SetVT(RefT("ParentImpl")))

    NSINV = ("all(s._namespace.fresh is s.namespace for s in every('ParentImpl'))"
             " and all(implies(k in s.namespace, s.namespace[k] is not None) for s in every('ParentImpl') for k in every('str'))")
    R.contract("extern::SharedSpaceOperations._get_subs", trusted=True,
        note="descendants of the space in the inheritance graph in topological order (networkx); bounded driver of C03 checks it",
        params={"self": "SharedSpaceOperations", "space": "ParentImpl", "skip_self": "bool"}, returns="list[ParentImpl]",
        static={"skip_self": True},
        ensures=["all((x in elems(result)) == (x in subs(self, space)) for x in every('ParentImpl'))", "fresh(result)"],
        modifies=[], alloc=True)
    R.contracts["SharedSpaceOperations._get_subs"] = R.contracts.pop("SharedSpaceOperations._get_subs")

    R.contract(M + "::SharedSpaceOperations._can_add",
        params={"self": "SharedSpaceOperations", "parent": "ParentImpl", "name": "str", "klass": "ClassObj"}, returns="bool",
        requires=[NSINV],
        ensures=[
            "MODEL:: implies(parent is self.model, result == (name not in parent.namespace))",
            "TAKEN-HERE:: implies(parent is not self.model and name in parent.namespace, result == (not is_instance_named(parent.namespace[name], 'Impl')))",
            # C12: True only if NO sub space holds the name as another kind of thing (every sub, not only the first)
            "ALL-SUBS:: implies(parent is not self.model and name not in parent.namespace,"
            " result == all(implies(name in s.namespace, is_instance(s.namespace[name], klass)) for s in subs(self, parent)))",
        ],
        loops={0: ["all(implies(j < _i and name in _s[j].namespace, is_instance(_s[j].namespace[name], klass)) for j in range(len(_s)))"]},
        modifies=[], alloc=True)

    MEMBERS_INV = ("all(implies(k in s.cells, s.cells[k] is not None) and implies(k in s.own_refs, s.own_refs[k] is not None)"
                   " and implies(k in s.named_spaces, s.named_spaces[k] is not None) for s in every('ParentImpl') for k in every('str'))")
    HAS = "(name in %s.cells or name in %s.own_refs or name in %s.named_spaces)"
    R.contract(M + "::SharedSpaceOperations._find_name_in_subs",
        params={"self": "SharedSpaceOperations", "parent": "ParentImpl", "name": "str", "skip_self": "bool"}, returns="object",
        static={"skip_self": True}, requires=[MEMBERS_INV],
        ensures=[
            # C12 (J-2): the name is looked up among the MEMBERS (cells, own refs, child spaces) of every sub space, where a
            # model-level reference of the same name cannot hide a clash
            "NONE-IFF:: implies(result is None, all(not %s for s in subs(self, parent)))" % (HAS % ("s", "s", "s")),
            "FOUND:: implies(result is not None, any((name in s.cells and s.cells[name] is result) or (name in s.own_refs and s.own_refs[name] is result)"
            " or (name in s.named_spaces and s.named_spaces[name] is result) for s in subs(self, parent)))"],
        loops={0: ["all(implies(j < _i, not %s) for j in range(len(_s)))" % (HAS % ("_s[j]", "_s[j]", "_s[j]"))],
               1: ["all(implies(j < _i1, name not in _s1[j]) for j in range(len(_s1)))",
                   "len(_s1) == 3 and _s1[0] is subspace.cells and _s1[1] is subspace.own_refs and _s1[2] is subspace.named_spaces",
                   "subspace in subs(self, parent)",
                   "all(implies(j < _i0, not %s) for j in range(len(_s0)))" % (HAS % ("_s0[j]", "_s0[j]", "_s0[j]"))]},
        modifies=[], alloc=True)
    P["_names"] = ["SharedSpaceOperations._can_add", "SharedSpaceOperations._find_name_in_subs"]
