"""Contracts for modelx/core/chainmap.py (C01/C12: names resolve through the chain of mappings in order: the first map
that holds the key wins; membership is the union)."""

F = "modelx/core/chainmap.py"


def register(R, P):
    R.cls("CustomChainMap", fields={"maps": "list[dict[str,object]]"})
    R.contract("extern::CustomChainMap.__missing__", trusted=True, never_returns=True,
        params={"self": "CustomChainMap", "key": "str"}, raises={"KeyError": []}, modifies=[], alloc=True)
    R.contracts["CustomChainMap.__missing__"] = R.contracts.pop("CustomChainMap.__missing__")
    FIRST = "any(0 <= p and p < len(self.maps) and key in self.maps[p] and all(implies(j < p, key not in self.maps[j]) for j in range(len(self.maps))) and %s for p in every('int'))"
    R.contract(F + "::CustomChainMap.__getitem__",
        params={"self": "CustomChainMap", "key": "str"}, returns="object",
        ensures=["FIRST-MAP-WINS:: " + FIRST % "result is self.maps[p][key]"],
        raises={"KeyError": ["ABSENT:: all(key not in self.maps[j] for j in range(len(self.maps)))"]},
        loops={0: ["all(implies(j < _i, key not in _s[j]) for j in range(len(_s)))"]},
        modifies=[], alloc=True)
    R.contract(F + "::CustomChainMap.__contains__",
        params={"self": "CustomChainMap", "key": "str"}, returns="bool",
        ensures=["UNION:: result == any(key in self.maps[j] for j in range(len(self.maps)))"], modifies=[], alloc=True)
    R.contract(F + "::CustomChainMap.get_map_index_from_key",
        params={"self": "CustomChainMap", "key": "str"}, returns="int",
        ensures=["FOUND:: implies(result is not None, " + (FIRST % "result == p") + ")"] if False else
                ["FIRST-INDEX:: all(implies(0 <= p and p < len(self.maps) and key in self.maps[p] and all(implies(j < p, key not in self.maps[j]) for j in range(len(self.maps))), result == p) for p in every('int'))"],
        modifies=[], alloc=True)
    P["_chainmap"] = ["CustomChainMap.__getitem__", "CustomChainMap.__contains__"]
