"""Contract for ReferenceImpl.on_inherit (modelx/core/reference.py) — C10: the mode table of derived references,
and C02 (#16): re-inheriting a derived reference invalidates whoever read it by attribute path."""
import z3
from pyvc.ty import *

F = "modelx/core/reference.py"


def register(R, P):
    R.cls("RefContainer")
    R.cls("Updater")
    R.classes["ReferenceImpl"].fields.update({"refmode": "str", "is_relative": "bool", "parent": "Impl", "container": "RefContainer",
                                              "model": "ModelImpl", "ghost_notified": "int"})
    R.classes["RefContainer"].fields.update({"ghost_notified": "int"})

    @R.specfun("has_iface")
    def has_iface(ev, r):
        """ReferenceImpl.has_interface(): the value is a modelx object that is still valid (uninterpreted predicate of the value)"""
        v = ev.eng.get_field(ev.st, r, "interface")
        return SV(z3.Function("val_is_valid_interface", Val, B)(v.v), BOOL)

    @R.specfun("rel_flag")
    def rel_flag(ev, upd, parent, base):
        return SV(z3.Function("relative_flag", Ref, Ref, Ref, B)(upd.v, parent.v, base.v), BOOL)

    @R.specfun("rel_value")
    def rel_value(ev, upd, parent, base):
        return SV(z3.Function("relative_value", Ref, Ref, Ref, Val)(upd.v, parent.v, base.v), VAL)

    R.contract("extern::ReferenceImpl.has_interface", trusted=True, pure=True,
        params={"self": "ReferenceImpl"}, returns="bool", ensures=["result == has_iface(self)"])
    R.contract("extern::Updater.get_relative_interface", trusted=True, pure=True,
        note="SharedSpaceOperations.get_relative_interface -> SpaceGraph.get_relative (dotted-name helpers proved under C10; get_relative itself "
             "is bounded): the corresponding object of `base`'s target in the tree of `parent`, and whether one exists",
        params={"self": "Updater", "parent": "Impl", "base": "ReferenceImpl"}, returns="tuple[bool,val]",
        ensures=["result[0] == rel_flag(self, parent, base)", "result[1] == rel_value(self, parent, base)"])
    R.contract("extern::RefContainer.notify", trusted=True,
        note="LazyEval.notify: marks the namespace stale and clears computed values of the space's cells (C02 by-name row; bounded)",
        params={"self": "RefContainer"}, ensures=["self.ghost_notified == old(self.ghost_notified) + 1"], modifies=["self.ghost_notified"])
    for q in ("ReferenceImpl.has_interface", "Updater.get_relative_interface", "RefContainer.notify"):
        R.contracts[q] = R.contracts.pop(q)

    PRE = ["GWF(self.model.tracegraph)", "RGWF(self.model.refgraph)", "HELD(self.model.tracegraph)", "OWN(self.model)", "SEP()",
           "all(c.data is not d.input_keys for c in every('CellsImpl') for d in every('CellsImpl'))",
           "self.model.tracegraph is not self.model.refgraph", "len(bases) >= 1"]
    B0 = "bases[0]"
    R.contract(F + "::ReferenceImpl.on_inherit",
        params={"self": "ReferenceImpl", "updater": "Updater", "bases": "list[ReferenceImpl]"},
        requires=PRE,
        ensures=[
            # C10: the mode table
            "ABSOLUTE:: implies(has_iface(bases[0]) and self.refmode == 'absolute', self.interface == bases[0].interface and not self.is_relative)",
            "AUTO:: implies(has_iface(bases[0]) and self.refmode == 'auto', self.interface == rel_value(updater, self.parent, bases[0]) and self.is_relative == rel_flag(updater, self.parent, bases[0]))",
            "RELATIVE:: implies(has_iface(bases[0]) and self.refmode == 'relative', rel_flag(updater, self.parent, bases[0]) and self.interface == rel_value(updater, self.parent, bases[0]) and self.is_relative)",
            "PLAIN-VALUE:: implies(not has_iface(bases[0]), self.interface == bases[0].interface)",
            # C02: by-name readers are notified, attribute-path readers are cleared
            "NOTIFIED:: self.container.ghost_notified == old(self.container.ghost_notified) + 1",
            "REFERRERS-GONE:: all(implies(old(has_edge(self.model.refgraph, rf(self), nd(n))), not has_node(self.model.tracegraph, n)) for n in every('node'))",
            "HELD:: HELD(self.model.tracegraph)", "GWF:: GWF(self.model.tracegraph)",
        ],
        raises={"ValueError": [
            # a relative reference that cannot be rebound in the deriving space is refused and keeps its value
            "OUT-OF-SCOPE:: has_iface(bases[0]) and ((self.refmode == 'relative' and not rel_flag(updater, self.parent, bases[0]))"
            " or (self.refmode != 'absolute' and self.refmode != 'auto' and self.refmode != 'relative'))",
            "VALUE-KEPT:: self.interface == old(self.interface) and self.is_relative == old(self.is_relative)",
        ]},
        modifies=["self.interface", "self.is_relative", "self.container.ghost_notified", "content(self.model.tracegraph)",
                  "content(self.model.refgraph)", "every_content('dict[key,val]')", "every_content('set[key]')"],
        alloc=True)
    P["_reference"] = ["ReferenceImpl.on_inherit"]
