"""Which functions under contract and which lemmas each property depends on (DESIGN.md section 4)."""

EXECUTOR = ["CallStack.append", "CallStack.pop", "CallStack.rollback", "NonThreadedExecutor._eval_formula",
            "NonThreadedExecutor._start_exec", "NonThreadedExecutor.eval_node"]
GRAPH = ["TraceGraph.remove_with_descs", "TraceGraph.get_nodes_with", "TraceGraph.clear_obj", "TraceGraph.get_startnodes_from",
         "ReferenceGraph.remove_with_referred", "ReferenceGraph.remove_with_descs",
         "TraceManager.clear_with_descs", "TraceManager.clear_obj", "TraceManager.clear_attr_referrers"]
VALUES = ["CellsImpl.on_clear_trace", "CellsImpl.has_node", "CellsImpl.clear_value_at", "CellsImpl.clear_all_values",
          "CellsImpl._store_value", "Impl.get_property", "CellsImpl.set_value_from_key", "CellsImpl.get_value_from_key",
          "CellsImpl.on_eval_formula", "key_to_node", "node_has_key"]
BIG = {"UserCellsImpl.on_set_property": 6, "BaseSpaceImpl.on_delete": 3, "CallStack.pop": 8, "CallStack.rollback": 4, "NonThreadedExecutor.eval_node": 4, "CellsImpl.set_value_from_key": 6,
       "CellsImpl.on_eval_formula": 2, "CellsImpl.clear_all_values": 3}

TB_EXEC = ["rely contract of user formulas (FormulaRun / NodeObj.on_eval_formula: Stable + A-PURE) — assumed, monitored by the bounded driver",
           "ErrorStack.__init__ / tracemessage (traceback frame grammar) — assumed, checked boundedly",
           "deque / dict / set / networkx DiGraph primitive operations, nx.descendants (axioms of Desc) — trusted external contracts",
           "dispatch on node[OBJ] is resolved to CellsImpl; ItemSpaceParent.on_eval_formula / on_clear_trace are covered by the bounded drivers only",
           "LazyEval.fresh modelled as a field read (its refresh is part of FormulaRun)"]


def register(R, P):
    def prop(pid, targets, **kw):
        d = {"targets": list(dict.fromkeys(targets)), "shards": BIG, "trusted_base": TB_EXEC}
        d.update(kw); P[pid] = d
    prop("C01", EXECUTOR + ["CellsImpl.on_eval_formula", "CellsImpl._store_value", "CellsImpl.has_node", "CellsImpl.get_value_from_key",
                            "key_to_node", "Impl.get_property", "CustomChainMap.__getitem__", "CustomChainMap.__contains__"])
    prop("C02", GRAPH + ["CallStack.pop", "CallStack.rollback", "NonThreadedExecutor._eval_formula", "NonThreadedExecutor.eval_node", "CellsImpl.on_clear_trace", "CellsImpl.clear_value_at",
                         "CellsImpl.clear_all_values", "CellsImpl.on_namespace_change", "UserCellsImpl.on_set_property", "ReferenceImpl.on_inherit", "node_has_key", "LazyEval.notify", "CellsImpl.on_inherit"])
    prop("C05", EXECUTOR + ["CellsImpl._store_value", "Impl.get_property", "CellsImpl.on_eval_formula"],
         assumptions=["interpreter C-stack depth ('chains shorter than the limit evaluate without crashing') is not decided by any contract; probed by the bounded driver"])
    prop("C06", VALUES + ["TraceGraph.remove_with_descs", "TraceGraph.get_startnodes_from", "TraceManager.clear_with_descs",
                          "ReferenceGraph.remove_with_referred", "NonThreadedExecutor.eval_node"])
    prop("C08", EXECUTOR + ["CellsImpl.has_node", "TraceGraph.get_nodes_with", "TraceGraph.remove_with_descs", "TraceManager.clear_with_descs",
                            "CellsImpl.clear_all_values", "BaseSpaceImpl.on_delete"])
    prop("C13", ["BaseSpaceImpl.on_delete", "CellsImpl.clear_all_values", "CellsImpl.clear_value_at", "TraceManager.clear_obj",
                 "TraceManager.clear_with_descs", "TraceGraph.clear_obj", "UserSpaceImpl.on_del_cells", "ItemSpaceParent._del_itemspace"],
         assumptions=["Impl.on_delete (null-impl handles), DynamicSpaceImpl/DynamicBase/UserSpaceImpl.on_delete, SpaceUpdater.del_defined_space and the "
                      "re-derivation of subs are covered by the bounded driver only"])
    prop("C09", ["CallStack.append", "CallStack.pop", "NonThreadedExecutor.eval_node", "CellsImpl.on_eval_formula",
                 "CellsImpl.clear_all_values", "CellsImpl.on_namespace_change", "UserCellsImpl.on_set_property",
                 "TraceGraph.clear_obj", "TraceGraph.get_nodes_with", "TraceManager.clear_obj", "TraceManager.clear_attr_referrers"])
    prop("C17", ["CallStack.rollback", "CallStack.pop", "NonThreadedExecutor._eval_formula", "NonThreadedExecutor._start_exec"])


def register2(R, P):
    P["C19"] = {"targets": list(P["_registry"]), "shards": {},
                "trusted_base": ["ModelImpl.__init__ (name handling per model.py:867-872; construction glue is bounded only)",
                                 "util.is_valid_name as uninterpreted predicate valid()", "ReferenceManager.del_all_spec does not touch the registry (C18)",
                                 "dict primitive operations"],
                "assumptions": ["isolation between models ('operations on one model never change another') is a whole-program frame condition: bounded driver only",
                                "termination of AutoNamer.get_next assumed for finite name sets"]}


def register3(R, P):
    P["C14"] = {"targets": ["_increment_backups", "write_model"], "shards": {"_increment_backups": 6, "write_model": 6},
                "trusted_base": ["pathlib.Path.exists/is_dir/is_file/unlink/rename, shutil.rmtree: external contracts over the ghost file-system view FS "
                                 "(each may raise OSError; rename/unlink atomic; a failing rmtree may leave its own path in any state)",
                                 "string facts GEN-INJ: generation paths base+'_BAK'+str(k) are pairwise distinct; concatenation is associative; s + '' == s",
                                 "write_model: _get_serializer touches no file; ModelWriter.__init__ touches no file; ModelWriter.write_model writes below its root only "
                                 "(directory destination may be left partial on failure, zip destination absent-or-complete); rmtree(ignore_errors=True) never raises"],
                "assumptions": ["on-disk intactness of what the writer produces, zip staging and registry/flag clean-up of ModelWriter/ModelReader are covered by the "
                                "bounded fault-injection driver only (serializer_6 writer/reader are outside the supported subset)"]}
    P["C04"] = {"targets": ["abs_to_rel_tuple", "rel_to_abs_tuple"], "lemmas": ["C04-ROUNDTRIP-TUPLE"], "shards": {},
                "trusted_base": ["str * int and len(str) as uninterpreted functions with the facts len('.'*n) == n, '.'*1 == '.'"],
                "assumptions": ["the text layer (encoders/parsers), pickling and ziputil are outside the supported subset: bounded round-trip driver only"]}
    P["C10"] = {"targets": list(P["_paths"]) + ["ReferenceImpl.on_inherit"], "shards": {},
                "trusted_base": ["str.split('.') / '.'.join as the identity on the component-sequence representation of dotted names"],
                "assumptions": ["SpaceGraph.get_relative, SpaceManager.new_ref/change_ref and DynBaseRefDict.wrap_impl are not yet under contract: "
                                "bounded driver (full placement grid) only"]}


def register4(R, P):
    P["C18"] = {"targets": list(P["_refmgr"]), "shards": {"ReferenceManager.change_ref": 6, "ReferenceManager.del_ref": 3},
                "trusted_base": ["model/space layer reference operations (SpaceManager.new_ref/del_ref/change_ref, ModelImpl.new_ref/del_ref/change_ref): frame + effect on own_refs, assumed",
                                 "IOManager.get_spec_from_value / del_spec / update_spec_value over the ghost set `specs`", "id() injective on live objects",
                                 "ReferenceManager._impl_change_ref (static dispatcher to the model/space layer): the name is re-bound to a fresh reference object holding the value, nothing else moves"],
                "assumptions": ["IOManager internals (BiDict, SharedIO tables), new_pandas / new_excel_range undo paths are covered by the bounded driver only"]}
    P["C12"] = {"targets": list(P["_names"]) + ["CustomChainMap.__getitem__", "CustomChainMap.__contains__", "LazyEval.notify"], "shards": {},
                "trusted_base": ["SharedSpaceOperations._get_subs (networkx descendants / topological order) as the uninterpreted set subs(); namespace property modelled as a field equal to _namespace.fresh"],
                "assumptions": ["add_bases conflict check, new_cells/rename guards, LazyEval refresh and dir() are covered by the bounded driver only"]}


def register5(R, P):
    P["C07"] = {"targets": list(P["_itemspace"]), "shards": {},
                "trusted_base": ["ItemSpaceImpl.on_delete (deletes the instance's own tree): marked deleted only; ImplDict.del_item = dict.__delitem__ (+ namespace notification, not modelled)"],
                "assumptions": ["creation (on_eval_formula, ItemSpaceImpl construction, relative rebinding of the dynamic tree), evaluation inside an instance and isolation are covered by the "
                                "bounded driver only; 'equal arguments give the same instance' rests on the executor contract (a held element is returned, C01) with has_node proved here"]}
    P["C11"] = {"targets": ["SpaceUpdater._execute_or_restore", "SpaceManager.set_cells_property", "CellsImpl.set_value_from_key", "CellsImpl._store_value",
                            "System.rename_model", "ModelImpl.rename"],
                "shards": {"CellsImpl.set_value_from_key": 6},
                "trusted_base": ["InstructionList.execute may raise at any point; update_subs re-derives along the graph of the object it is called on (ghost counter)",
                                 "Formula construction validates and has no effect on the model"],
                "assumptions": ["the transactional behaviour of new_space/add_bases/remove_bases/del_defined_space beyond this, name validation and the "
                                "description-level 'nothing changed' check: bounded driver only"]}
    P["C03"] = {"targets": ["SpaceManager.set_cells_property", "SpaceGraph.max_index"] + list(P["_inherit"]),
                "shards": {"UserSpaceImpl.on_inherit@cells": 8, "UserSpaceImpl.on_inherit@own_refs": 10},
                "trusted_base": ["UserSpaceImpl.on_inherit uses call-site views of its callees (derived-placeholder constructors of UserCellsImpl / ReferenceImpl, "
                                 "CellsImpl.on_inherit, ReferenceImpl.on_inherit, on_del_cells, on_del_ref, clear_attr_referrers); CustomChainMap.__init__/__iter__ modelled "
                                 "(maps = the given mappings; iteration yields each key of the union once); member order inside the mappings not specified",
                                 "the `bases` argument is the C3 linearisation computed by get_mro (bounded against CPython's C3) and every member a base holds is defined by some base (DEFINED-SOURCE, "
                                 "precondition: subs are re-derived in topological order by update_subs, which is not under contract)","_get_subs (descendants in topological order), get_deriv_bases()[0] as the uninterpreted first_defined_base (C3 itself: bounded against CPython)",
                                 "UserCellsImpl.on_set_property through its call-site view (applied once; flag set): proved separately under C09",
                                 "Formula construction may raise and has no effect on the model; clear_subs_rootitems does not touch cells flags"],
                "assumptions": ["SpaceUpdater scheduling / update_subs, new_cells/new_ref/change_ref/rename_cells propagation, get_mro: bounded driver only"]}
