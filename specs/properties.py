"""Which functions under contract and which lemmas each property depends on (DESIGN.md section 4)."""

EXECUTOR = ["CallStack.append", "CallStack.pop", "CallStack.rollback", "NonThreadedExecutor._eval_formula",
            "NonThreadedExecutor._start_exec", "NonThreadedExecutor.eval_node"]
BIG = {"CallStack.pop": 8, "CallStack.rollback": 4, "NonThreadedExecutor.eval_node": 4}

TB_EXEC = ["rely contract of user formulas (NodeObj.on_eval_formula: Stable + A-PURE) — assumed, monitored by the bounded driver",
           "ErrorStack.__init__ / tracemessage (traceback frame grammar) — assumed, checked boundedly",
           "deque / dict / networkx DiGraph primitive operations — trusted external contracts"]


def register(R, P):
    P["C05"] = {"targets": list(EXECUTOR), "shards": BIG, "trusted_base": TB_EXEC,
                "assumptions": ["interpreter C-stack depth ('chains shorter than the limit evaluate without crashing') is not decided by any contract; probed by the bounded driver"]}
    P["C08"] = {"targets": list(EXECUTOR), "shards": BIG, "trusted_base": TB_EXEC}
    P["C17"] = {"targets": ["CallStack.rollback", "CallStack.pop", "NonThreadedExecutor._eval_formula", "NonThreadedExecutor._start_exec"],
                "shards": BIG, "trusted_base": TB_EXEC}
