"""Contracts for modelx/core/util.py: relative/absolute id tuples (C04: `_bases`, interface references and
dynamic-input ids are written relative to the space and re-absolutised on reading)."""

U = "modelx/core/util.py"

# sh is the length of the common prefix of t and ns
SHARED = ("0 <= sh and sh <= len(t) and sh <= len(ns) and all(t[i] == ns[i] for i in range(sh))"
          " and (sh == len(t) or sh == len(ns) or t[sh] != ns[sh])")


def register(R, P):
    R.macro("is_shared", ["t", "ns", "sh"], SHARED)

    R.contract(U + "::abs_to_rel_tuple",
        params={"target": "seq[str]", "namespace": "seq[str]"}, returns="seq[str]",
        ensures=[
            # the result is (dots,) + the part of target after the common prefix, with len(ns) - shared + 1 dots
            "SHAPE:: any(is_shared(target, namespace, sh) and len(result) == 1 + len(target) - sh"
            " and result[0] == dots(len(namespace) - sh + 1)"
            " and all(result[1 + i] == target[sh + i] for i in range(len(target) - sh)) for sh in every('int'))",
        ],
        loops={0: {"inv": ["0 <= shared and shared <= tglen and shared <= nslen", "tglen == len(target) and nslen == len(namespace) and tg == target and ns == namespace",
                           "all(target[i] == namespace[i] for i in range(shared))"]}},
        modifies=[], alloc=True)

    R.contract(U + "::rel_to_abs_tuple",
        params={"target": "seq[str]", "namespace": "seq[str]"}, returns="seq[str]",
        requires=["len(target) >= 1"],
        ensures=[
            "RESULT:: any(target[0] == dots(d) and d == len(target[0]) and result == namespace[:len(namespace) - d + 1] + target[1:] for d in every('int'))",
        ],
        raises={"ValueError": ["NOT-DOTS:: target[0] != dots(len(target[0]))"]},
        loops={0: {"inv": ["0 <= dots and dots <= len(target)"]}},
        modifies=[], alloc=True)

    @R.lemma("C04-ROUNDTRIP-TUPLE")
    def roundtrip(L):
        """rel_to_abs_tuple(abs_to_rel_tuple(t, ns), ns) == t for every t, ns (ns non-empty not even needed), over the two contracts"""
        import z3
        st = L.state("s")
        t = L.const("t", "seq[str]"); ns = L.const("ns", "seq[str]"); rel = L.const("rel", "seq[str]"); back = L.const("back", "seq[str]")
        hyps = []
        hyps += L.contract_post("abs_to_rel_tuple", st, st, {"target": t, "namespace": ns}, result=rel)
        hyps += [L.holds("len(t) >= 0 and len(ns) >= 0", st, t=t, ns=ns)]
        pre = L.contract_pre("rel_to_abs_tuple", st, {"target": rel, "namespace": ns})
        post = L.contract_post("rel_to_abs_tuple", st, st, {"target": rel, "namespace": ns}, result=back)
        goal_pre = z3.And(*pre)
        goal = L.holds("back == t", st, back=back, t=t)
        return [("decoder-precondition", hyps, goal_pre),
                ("roundtrip", hyps + post, goal)]
    P["_util"] = ["abs_to_rel_tuple", "rel_to_abs_tuple"]
