"""Contracts for modelx/serialize/__init__.py: backup rotation (C14).

File system view (ghost object FS): FS.kind[p] in {0 absent, 1 file, 2 directory}, FS.content[p] an opaque blob.
Generation k of a save path: gpath(base, k) = str(base) + ("" if k == 0 else "_BAK" + str(k)) -- exactly the string
expressions of the code (string concatenation is an uninterpreted function; the only string facts used are the
trusted axioms GEN-INJ below)."""
import z3
from pyvc.ty import *

F = "modelx/serialize/__init__.py"


def register(R, P):
    R.cls("FileSystem", fields={"kind": "dict[str,int]", "content": "dict[str,val]"})
    R.globals["FS"] = "FileSystem"

    @R.specfun("gpath")
    def gpath(ev, base, k):
        E = ev.eng
        cc = z3.Function("str_concat", Str, Str, Str)
        soi = z3.Function("str_of_Int", I, Str)
        empty, bak = E.strconst(""), E.strconst("_BAK")
        if not getattr(E, "_gen_ax", False):
            E._gen_ax = True
            b = z3.Const("gb", Str); i, j = z3.Ints("gi gj")
            # GEN-INJ (trusted string facts): generation paths of one base are pairwise distinct
            E.axioms.append(z3.ForAll([b, i, j], z3.Implies(cc(b, cc(bak, soi(i))) == cc(b, cc(bak, soi(j))), i == j)))
            E.axioms.append(z3.ForAll([b, i], cc(b, empty) != cc(b, cc(bak, soi(i)))))
            E.axioms.append(z3.ForAll([b], cc(b, empty) == b))          # s + "" == s
            # concatenation is associative (the code builds generation k+1 as (base + "_BAK") + str(k+1))
            c1, c2 = z3.Consts("gc1 gc2", Str)
            E.axioms.append(z3.ForAll([b, c1, c2], cc(cc(b, c1), c2) == cc(b, cc(c1, c2)), patterns=[cc(cc(b, c1), c2)]))
        return SV(z3.If(k.v == 0, cc(base.v, empty), cc(base.v, cc(bak, soi(k.v)))), STR)

    R.macro("K", ["b", "k"], "FS.kind[gpath(b, k)]")
    R.macro("Cn", ["b", "k"], "FS.content[gpath(b, k)]")
    R.macro("FS_WF", [], "all(0 <= FS.kind[p] and FS.kind[p] <= 2 for p in every('str')) and FS.kind is not FS.content")
    SAME = "all(FS.kind[q] == old(FS.kind[q]) and FS.content[q] == old(FS.content[q]) for q in every('str'))"
    SAME_EXCEPT_SELF = "all(implies(q != self, FS.kind[q] == old(FS.kind[q]) and FS.content[q] == old(FS.content[q])) for q in every('str'))"
    FSMOD = ["content(FS.kind)", "content(FS.content)"]
    OSERR = {"OSError": ["UNCHANGED:: " + SAME]}

    # ---- trusted external contracts: pathlib / shutil (each call may fail with OSError) ---------------------------
    R.contract("extern::pathlib.Path", trusted=True, pure=True, note="paths are modelled as their strings",
        params={"s": "str"}, returns="str", ensures=["result == s"])
    R.contract("extern::Path.exists", trusted=True, params={"self": "str"}, returns="bool",
        ensures=["result == (FS.kind[self] != 0)", "UNCHANGED:: " + SAME], raises=OSERR, modifies=FSMOD if False else [])
    R.contract("extern::Path.is_dir", trusted=True, params={"self": "str"}, returns="bool",
        ensures=["result == (FS.kind[self] == 2)"], raises={"OSError": []}, modifies=[])
    R.contract("extern::Path.is_file", trusted=True, params={"self": "str"}, returns="bool",
        ensures=["result == (FS.kind[self] == 1)"], raises={"OSError": []}, modifies=[])
    R.contract("extern::Path.unlink", trusted=True, params={"self": "str"},
        note="atomic: succeeds or leaves the file as it was",
        ensures=["FS.kind[self] == 0", SAME_EXCEPT_SELF], raises=OSERR, modifies=FSMOD)
    R.contract("extern::shutil.rmtree", trusted=True, params={"self": "str"},
        note="on failure the tree may be partially deleted (anything may have happened to this path, nothing to others)",
        ensures=["FS.kind[self] == 0", SAME_EXCEPT_SELF],
        raises={"OSError": [SAME_EXCEPT_SELF, "0 <= FS.kind[self] and FS.kind[self] <= 2"]}, modifies=FSMOD)
    R.contract("extern::Path.rename", trusted=True, params={"self": "str", "target": "str"},
        note="assumption A of C14: rename onto an absent target is atomic (succeeds, or leaves both ends as they were)",
        requires=["FS.kind[self] != 0"],
        ensures=["FS.kind[target] == old(FS.kind[self]) and FS.content[target] == old(FS.content[self]) and (FS.kind[self] == 0 or self == target)",
                 "all(implies(q != self and q != target, FS.kind[q] == old(FS.kind[q]) and FS.content[q] == old(FS.content[q])) for q in every('str'))"],
        raises=OSERR, modifies=FSMOD)

    B = "base_path"
    INRANGE = "any(nth <= k and k <= max_backups and p == gpath(base_path, k) for k in every('int'))"
    R.contract(F + "::_increment_backups",
        params={"model": "object", "base_path": "str", "max_backups": "int", "nth": "int"},
        requires=["0 <= nth and nth <= max_backups", "FS_WF()"],
        decreases="max_backups - nth",
        ensures=[
            "ABSENT:: implies(old(K(base_path, nth)) == 0, " + SAME + ")",
            # the path of generation nth is free afterwards
            "FREED:: K(base_path, nth) == 0",
            # every generation k in (nth, max] receives generation k-1 if all of nth..k-1 existed, else keeps its own
            "SHIFT:: all(implies(nth < k and k <= max_backups,"
            " (K(base_path, k) == old(K(base_path, k - 1)) and Cn(base_path, k) == old(Cn(base_path, k - 1)))"
            " if all(implies(nth <= j and j < k, old(K(base_path, j)) != 0) for j in every('int'))"
            " else (K(base_path, k) == old(K(base_path, k)) and Cn(base_path, k) == old(Cn(base_path, k))))"
            " for k in every('int'))",
            # nothing else on the file system is touched (generations < nth, > max, and every other path)
            "FRAME:: all(implies(not (%s), FS.kind[p] == old(FS.kind[p]) and FS.content[p] == old(FS.content[p])) for p in every('str'))" % INRANGE,
            "FS_WF:: FS_WF()",
        ],
        raises={
            # C14: whatever file operation fails, nothing but the OLDEST generation is ever lost and order is kept:
            # each younger generation is still where it was or one step further
            "OSError": [
                "NOTHING-BUT-OLDEST-LOST:: all(implies(nth <= k and k < max_backups and old(K(base_path, k)) != 0,"
                " (K(base_path, k) == old(K(base_path, k)) and Cn(base_path, k) == old(Cn(base_path, k)))"
                " or (K(base_path, k + 1) == old(K(base_path, k)) and Cn(base_path, k + 1) == old(Cn(base_path, k))))"
                " for k in every('int'))",
                "FRAME:: all(implies(not (%s), FS.kind[p] == old(FS.kind[p]) and FS.content[p] == old(FS.content[p])) for p in every('str'))" % INRANGE,
                "FS_WF:: FS_WF()",
            ],
            "ValueError": ["UNCHANGED:: " + SAME],
        },
        modifies=FSMOD)
    # ---- write_model: rotate, write, clean up (C14: the last good save is never lost) ------------------------------------------
    R.consts["DEFAULT_MAX_BACKUPS"] = 3
    R.globals["HIGHEST_VERSION"] = "object"
    R.cls("SerializerModule"); R.cls("ModelWriterT", fields={"root": "str", "is_zip": "bool"})
    R.cls("ModelObjT", fields={"path": "str"})
    OTHERS_SAME = "all(implies(q != %s, FS.kind[q] == old(FS.kind[q]) and FS.content[q] == old(FS.content[q])) for q in every('str'))"
    R.contract("extern::_get_serializer", trusted=True, note="importlib.import_module of the serializer for that format version; raises for an unknown version; no file is touched",
        params={"version": "val"}, returns="SerializerModule", ensures=["result is not None", SAME], raises={"*": [SAME]}, modifies=[], alloc=True)
    R.contract("extern::SerializerModule.ModelWriter", trusted=True, note="ModelWriter.__init__ stores its arguments; no file is touched",
        params={"self": "SerializerModule", "system": "object", "model": "ModelObjT", "root": "str", "is_zip": "bool", "log_input": "bool", "compression": "object", "compresslevel": "object"},
        nullable=["compresslevel", "compression", "system"],
        returns="ModelWriterT", ensures=["fresh(result) and result.root == root and result.is_zip == is_zip", SAME], raises={"*": [SAME]}, modifies=[], alloc=True)
    R.contract("extern::ModelWriterT.write_model", trusted=True,
        note="the serializer writes below its root only (temporary files are gone when it returns or raises); on failure a directory destination may be left partial, "
             "a zip destination is written to a temporary name and renamed, so it is absent or complete (fix commits for C14; bounded driver with fault injection)",
        params={"self": "ModelWriterT"},
        ensures=["FS.kind[self.root] == (1 if self.is_zip else 2)", OTHERS_SAME % "self.root"],
        raises={"*": [OTHERS_SAME % "self.root", "0 <= FS.kind[self.root] and FS.kind[self.root] <= 2",
                      "implies(self.is_zip, FS.kind[self.root] == old(FS.kind[self.root]) and FS.content[self.root] == old(FS.content[self.root]))"]},
        modifies=FSMOD, alloc=True)
    R.contract("extern::shutil.rmtree", variant="ignore", trusted=True, params={"self": "str", "ignore_errors": "bool"}, static={"ignore_errors": True},
        note="rmtree(ignore_errors=True) never raises; the tree may be only partly deleted",
        ensures=[SAME_EXCEPT_SELF, "0 <= FS.kind[self] and FS.kind[self] <= 2"], modifies=FSMOD)
    P_ = "model_path"
    KEPT0 = "(K(%s, 0) == old(K(%s, 0)) and Cn(%s, 0) == old(Cn(%s, 0)))" % (P_, P_, P_, P_)
    MOVED1 = "(K(%s, 1) == old(K(%s, 0)) and Cn(%s, 1) == old(Cn(%s, 0)))" % (P_, P_, P_, P_)
    R.contract(F + "::write_model",
        params={"system": "object", "model": "ModelObjT", "model_path": "str", "is_zip": "bool", "backup": "bool", "log_input": "bool",
                "compression": "object", "compresslevel": "object", "version": "val"},
        nullable=["system", "compression", "compresslevel"],
        requires=["FS_WF()"],
        ensures=[
            "SAVED:: K(model_path, 0) == (1 if is_zip else 2)",
            # C14: with backups on, the previous save is now the first backup ...
            "PREVIOUS-IS-FIRST-BACKUP:: implies(backup and old(K(model_path, 0)) != 0, %s)" % MOVED1,
            # ... and the two generations before it moved up in order
            "OLDER-IN-ORDER:: all(implies(backup and 1 < k and k <= 3 and all(implies(0 <= j and j < k, old(K(model_path, j)) != 0) for j in every('int')),"
            " K(model_path, k) == old(K(model_path, k - 1)) and Cn(model_path, k) == old(Cn(model_path, k - 1))) for k in every('int'))",
            "PATH-SET:: model.path == model_path",
        ],
        raises={"*": [
            # C14: whatever failed -- a file operation of the rotation, an unknown format version, the writer at any point --
            # the most recent complete copy is intact at the path or at its first backup
            "LAST-GOOD-SAFE:: implies(backup and old(K(model_path, 0)) != 0, %s or %s)" % (KEPT0, MOVED1),
            "OLDER-NOT-LOST:: all(implies(backup and 1 <= k and k < 3 and old(K(model_path, k)) != 0,"
            " (K(model_path, k) == old(K(model_path, k)) and Cn(model_path, k) == old(Cn(model_path, k)))"
            " or (K(model_path, k + 1) == old(K(model_path, k)) and Cn(model_path, k + 1) == old(Cn(model_path, k)))) for k in every('int'))",
        ]},
        modifies=FSMOD + ["model.path"], alloc=True)
    P["_serialize"] = ["_increment_backups", "write_model"]
