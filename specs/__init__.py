"""Sidecar contracts for modelx (DESIGN.md section 2.2).  registry() builds the shared Registry once."""
from pyvc.spec import Registry

_REG = None
PROPERTIES = {}
STANDING_ASSUMPTIONS = [
    "Python semantics assumed by the encoding: ints are mathematical; left-to-right evaluation; finally runs on every exit; "
    "exceptions not declared by any contract (MemoryError, KeyboardInterrupt, RecursionError) are followed only through bare except:/finally:",
    "argument tuples used as keys have a lawful ==/hash; Impl objects compare by identity",
    "receivers typed ref[C] in a contract are non-None instances of C (monkey-patched or subclassed modelx classes are out of scope)",
    "text of exception messages / formatted strings is dropped (opaque Str); warnings.warn and print are no-ops",
    "trusted external contracts (not proved): deque/list/dict/set operations, networkx DiGraph add_node/add_edge/remove_node/"
    "remove_nodes_from/has_node/predecessors/successors/out_degree/degree, nx.descendants (axioms of Desc: reflexive, edge-closed, "
    "every non-source member has a predecessor in the set), sys.exc_info",
    "the VC generator pyvc itself is not verified; guarded by canaries (every reachable exit satisfiable), zero-obligation check, "
    "z3/cvc5 agreement in the thorough tier and the mutant self-test",
]


def registry():
    global _REG
    if _REG is None:
        _REG = Registry()
        from . import classes, system_py, model_py
        for m in (classes, system_py, model_py):
            m.register(_REG, PROPERTIES)
        system_py.register_executor(_REG, PROPERTIES)
        system_py.register_executor2(_REG, PROPERTIES)
        model_py.register2(_REG, PROPERTIES)
        model_py.register3(_REG, PROPERTIES)
        model_py.register4(_REG, PROPERTIES)
        model_py.register5(_REG, PROPERTIES)
        model_py.register6(_REG, PROPERTIES)
        model_py.register7(_REG, PROPERTIES)
        model_py.register8(_REG, PROPERTIES)
        model_py.register9(_REG, PROPERTIES)
        from . import util_py
        util_py.register(_REG, PROPERTIES)
        from . import paths_py
        paths_py.register(_REG, PROPERTIES)
        from . import names_py
        names_py.register(_REG, PROPERTIES)
        from . import refmgr_py
        refmgr_py.register(_REG, PROPERTIES)
        from . import reference_py
        reference_py.register(_REG, PROPERTIES)
        from . import space_py
        space_py.register(_REG, PROPERTIES)
        space_py.register2(_REG, PROPERTIES)
        from . import spmgr_py
        spmgr_py.register(_REG, PROPERTIES)
        spmgr_py.register2(_REG, PROPERTIES)
        spmgr_py.register3(_REG, PROPERTIES)
        from . import chainmap_py
        chainmap_py.register(_REG, PROPERTIES)
        from . import lazy_py
        lazy_py.register(_REG, PROPERTIES)
        from . import inherit_py
        inherit_py.register(_REG, PROPERTIES)
        from . import itemspace_py
        itemspace_py.register(_REG, PROPERTIES)
        from . import serialize_py
        serialize_py.register(_REG, PROPERTIES)
        from . import registry_py
        registry_py.register(_REG, PROPERTIES)
        from . import properties
        properties.register(_REG, PROPERTIES)
        properties.register2(_REG, PROPERTIES)
        properties.register3(_REG, PROPERTIES)
        properties.register4(_REG, PROPERTIES)
        properties.register5(_REG, PROPERTIES)
    return _REG
