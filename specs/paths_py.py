"""Contracts for the dotted-name helpers of modelx/core/model.py and SpaceGraph.get_relative (C10).

Dotted names are modelled as the sequence of their components (type `path`; "" is the one-component path [eps],
None the empty sequence); str.split(".") / ".".join are the identity on that representation (trusted)."""

M = "modelx/core/model.py"

# longest common prefix of a and b has length m
LCP = ("0 <= m and m <= len(a) and m <= len(b) and all(a[i] == b[i] for i in range(m))"
       " and (m == len(a) or m == len(b) or a[m] != b[m])")
# longest common suffix
LCS = ("0 <= m and m <= len(a) and m <= len(b) and all(a[len(a) - m + i] == b[len(b) - m + i] for i in range(m))"
       " and (m == len(a) or m == len(b) or a[len(a) - 1 - m] != b[len(b) - 1 - m])")


def register(R, P):
    R.macro("lcp", ["a", "b", "m"], LCP)
    R.macro("lcs", ["a", "b", "m"], LCS)

    R.contract(M + "::len_node", params={"node": "path"}, returns="int",
        ensures=["result == len(node)"], modifies=[])
    R.contract(M + "::split_node", params={"node": "path"}, returns="tuple[path,name]",
        ensures=["NAME:: result[1] == node[len(node) - 1]",
                 "PARENT:: result[0] == (node[:len(node) - 1] if len(node) > 1 else path_empty())"],
        modifies=[], alloc=True)
    R.contract(M + "::trim_left", params={"node": "path", "trimed_len": "int"}, returns="path",
        requires=["0 <= trimed_len"],
        ensures=["result == (node[trimed_len:] if trimed_len < len(node) else path_empty())"], modifies=[], alloc=True)
    R.contract(M + "::trim_right", params={"node": "path", "trimed_len": "int"}, returns="path",
        requires=["0 <= trimed_len"],
        ensures=["result == (node[:len(node) - trimed_len] if trimed_len < len(node) else path_empty())"], modifies=[], alloc=True)

    INV_COMMON = ["0 <= length and length <= len(old(a_node)) and length <= len(old(b_node))",
                  "len(a_node) >= length and len(b_node) >= length"]
    R.contract(M + "::_get_shared_part",
        params={"a_node": "path", "b_node": "path", "from_left": "bool"}, returns="path", static={"from_left": True},
        ensures=["NONE-IFF:: (result is None) == (a_node[0] != b_node[0])",
                 "LCP:: implies(result is not None, lcp(a_node, b_node, len(result)) and len(result) >= 1 and result == a_node[:len(result)])"],
        loops={0: {"inv": INV_COMMON + [
            "all(a_node[i] == old(a_node)[i] for i in range(len(a_node))) and all(b_node[i] == old(b_node)[i] for i in range(len(b_node)))",
            "length == len(old(a_node)) or length == len(old(b_node)) or any(old(a_node)[i] != old(b_node)[i] for i in range(length + 1))",
        ]}},
        modifies=[], alloc=True)
    R.contract(M + "::_get_shared_part", variant="right",
        params={"a_node": "path", "b_node": "path", "from_left": "bool"}, returns="path", static={"from_left": False},
        ensures=["NONE-IFF:: (result is None) == (a_node[len(a_node) - 1] != b_node[len(b_node) - 1])",
                 "LCS:: implies(result is not None, lcs(a_node, b_node, len(result)) and len(result) >= 1 and result == a_node[len(a_node) - len(result):])"],
        loops={0: {"inv": INV_COMMON + [
            "all(a_node[j] == old(a_node)[j + len(old(a_node)) - len(a_node)] for j in range(len(a_node)))"
            " and all(b_node[j] == old(b_node)[j + len(old(b_node)) - len(b_node)] for j in range(len(b_node)))",
            "len(a_node) <= len(old(a_node)) and len(b_node) <= len(old(b_node))",
            "length == len(old(a_node)) or length == len(old(b_node))"
            " or any(old(a_node)[j + len(old(a_node)) - (length + 1)] != old(b_node)[j + len(old(b_node)) - (length + 1)] for j in range(length + 1))",
        ]}},
        modifies=[], alloc=True)
    R.contract(M + "::get_shared_asc", params={"a_node": "path", "b_node": "path"}, returns="path",
        ensures=["NONE-IFF:: (result is None) == (a_node[0] != b_node[0])",
                 "LCP:: implies(result is not None, lcp(a_node, b_node, len(result)) and len(result) >= 1 and result == a_node[:len(result)])"],
        modifies=[], alloc=True)
    R.contract(M + "::get_shared_desc", params={"a_node": "path", "b_node": "path"}, returns="path",
        ensures=["NONE-IFF:: (result is None) == (a_node[len(a_node) - 1] != b_node[len(b_node) - 1])",
                 "LCS:: implies(result is not None, lcs(a_node, b_node, len(result)) and len(result) >= 1 and result == a_node[len(a_node) - len(result):])"],
        modifies=[], alloc=True)
    R.contract(M + "::has_parent", params={"node": "path", "parent": "path"}, returns="bool",
        ensures=["PROPER-PREFIX:: result == (len(node) > len(parent) and all(node[i] == parent[i] for i in range(len(parent))))"],
        modifies=[], alloc=True)
    P["_paths"] = ["len_node", "split_node", "trim_left", "trim_right", "_get_shared_part", "_get_shared_part@right",
                   "get_shared_asc", "get_shared_desc", "has_parent"]
