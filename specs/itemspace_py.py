"""Contracts for the ItemSpace bookkeeping of ItemSpaceParent (modelx/core/space.py) — C07 (one instance per argument
key; discarding removes exactly that instance) and C13 (a discarded ItemSpace is marked deleted).
The creation side (on_eval_formula -> ItemSpaceImpl construction) and get_itemspace -> executor.eval_node are covered by the
executor contracts (C01: a held element is returned without running the formula) and the bounded driver."""

S = "modelx/core/space.py"


def register(R, P):
    R.cls("ItemSpaceImpl", bases=("Impl",), fields={"name": "str"})
    R.cls("NamedItemSpaces", content="dict[str,ItemSpaceImpl]")
    R.cls("ItemSpaceParent", fields={"param_spaces": "dict[key,ItemSpaceImpl]", "named_itemspaces": "dict[str,ItemSpaceImpl]"})
    R.contract("extern::ItemSpaceImpl.on_delete", trusted=True,
        note="DynamicSpaceImpl.on_delete: deletes the instance's own tree and nulls its interface (bounded driver of C13); "
             "here: the instance is marked deleted, the parent's tables are not touched",
        params={"self": "ItemSpaceImpl"}, ensures=["self.ghost_deleted"], modifies=["self.ghost_deleted"], alloc=True)
    R.contract(S + "::ItemSpaceParent.has_node",
        params={"self": "ItemSpaceParent", "key": "key"}, returns="bool",
        ensures=["HELD-IFF-INSTANCE:: result == (key in self.param_spaces)"], modifies=[], alloc=True)
    PRE = ["all(implies(k in self.param_spaces, self.param_spaces[k] is not null and self.param_spaces[k].name in self.named_itemspaces) for k in every('key'))",
           "self.named_itemspaces is not self.param_spaces"]
    POST = [
        "DISCARDED:: key not in self.param_spaces",
        "MARKED-DELETED:: implies(old(key in self.param_spaces), old(self.param_spaces[key]).ghost_deleted and old(self.param_spaces[key]).name not in self.named_itemspaces)",
        "OTHERS-KEPT:: all(implies(k != key, (k in self.param_spaces) == old(k in self.param_spaces) and self.param_spaces[k] is old(self.param_spaces[k])) for k in every('key'))",
        "NAMES-KEPT:: all(implies(not (old(key in self.param_spaces) and nm == old(self.param_spaces[key]).name), (nm in self.named_itemspaces) == old(nm in self.named_itemspaces)) for nm in every('str'))",
        "ONLY-IT-DELETED:: all(implies(s.ghost_deleted and not old(s.ghost_deleted), old(key in self.param_spaces) and s is old(self.param_spaces[key])) for s in every('ItemSpaceImpl'))",
    ]
    MOD = ["content(self.param_spaces)", "content(self.named_itemspaces)", "every(Impl.ghost_deleted)"]
    R.contract(S + "::ItemSpaceParent._del_itemspace",
        params={"self": "ItemSpaceParent", "key": "key"}, requires=PRE, ensures=POST, modifies=MOD, alloc=True)
    R.contract(S + "::ItemSpaceParent.on_clear_trace",
        params={"self": "ItemSpaceParent", "key": "key"}, requires=PRE, ensures=POST, modifies=MOD, alloc=True)
    P["_itemspace"] = ["ItemSpaceParent.has_node", "ItemSpaceParent._del_itemspace", "ItemSpaceParent.on_clear_trace"]
