"""Contracts for deletion / property edits in modelx/core/space.py and cells.py (C08 C09 C13 C02)."""

S = "modelx/core/space.py"
C = "modelx/core/cells.py"


def register(R, P):
    R.cls("BaseSpaceImpl", bases=("Impl",), fields={"cells": "dict[str,CellsImpl]", "model": "ModelImpl"})
    R.classes["Impl"].fields.update({"ghost_deleted": "bool"})
    R.contract("extern::Impl.on_delete", trusted=True,
        note="set_null_impl: the interface's _impl becomes the null object (every attribute raises DeletedObjectError); bounded driver of C13",
        params={"self": "Impl"}, ensures=["self.ghost_deleted"], modifies=["self.ghost_deleted"])
    R.contracts["Impl.on_delete"] = R.contracts.pop("Impl.on_delete")
    R.contracts["CellsImpl.on_delete"] = R.contracts["Impl.on_delete"]

    G = "self.model.tracegraph"
    MINE = "any(nm in self.cells and self.cells[nm] is obj(n) for nm in every('str'))"
    CELLS_OK = ("all(implies(nm in self.cells, self.cells[nm] is not null and self.cells[nm].model is self.model"
                " and all(implies(k in self.cells[nm].input_keys, k in self.cells[nm].data) for k in every('key'))"
                " and all(implies(k in self.cells[nm].data, has_node(%s, item(self.cells[nm], k))) for k in every('key')))"
                " for nm in every('str'))" % G)
    PRE = ["GWF(%s)" % G, "RGWF(self.model.refgraph)", "HELD(%s)" % G, "OWN(self.model)", "SEP()",
           "all(c.data is not d.input_keys for c in every('CellsImpl') for d in every('CellsImpl'))",
           "INPUT_BARE(%s)" % G, CELLS_OK,
           # G1: an object node stands for an UNCACHED cells only
           "all(implies(has_node(%s, objnode(c)), not c.is_cached) for c in every('CellsImpl'))" % G,
           "all(implies(a in self.cells and b in self.cells and self.cells[a] is self.cells[b], a == b) for a in every('str') for b in every('str'))"]
    R.contract(S + "::BaseSpaceImpl.on_delete",
        params={"self": "BaseSpaceImpl"},
        requires=PRE, supers={"on_delete": "Impl.on_delete"},
        ensures=[
            # C08/C13: the graph no longer mentions any element of any cells of the deleted space -- computed, assigned
            # (inputs) or object node of an uncached cells -- and those cells hold nothing
            "NO-NODE-OF-MINE:: all(implies(has_node(%s, n), not (%s)) for n in every('node'))" % (G, MINE),
            "NOTHING-HELD:: all(implies(nm in self.cells, all(k not in self.cells[nm].data for k in every('key'))) for nm in every('str'))",
            "ALL-DELETED:: all(implies(nm in self.cells, self.cells[nm].ghost_deleted) for nm in every('str')) and self.ghost_deleted",
            # nothing computed from them remains either: the removed part is closed under the old successor relation
            "CLOSED:: all(implies(old(has_edge(%s, a, b)) and old(has_node(%s, a)) and not has_node(%s, a), not has_node(%s, b)) for a in every('node') for b in every('node'))" % (G, G, G, G),
            "HELD:: HELD(%s)" % G, "GWF:: GWF(%s)" % G,
        ],
        loops={0: {"inv": [
            "all(implies(nm in _done, all(k not in self.cells[nm].data for k in every('key')) and self.cells[nm].ghost_deleted"
            " and all(implies(has_node(%s, n), obj(n) is not self.cells[nm]) for n in every('node'))) for nm in every('str'))" % G,
            "all(implies(old(has_edge(%s, a, b)) and old(has_node(%s, a)) and not has_node(%s, a), not has_node(%s, b)) for a in every('node') for b in every('node'))" % (G, G, G, G),
            "all(implies(has_node(%s, n), old(has_node(%s, n))) for n in every('node'))" % (G, G),
            "all(has_edge(%s, a, b) == (old(has_edge(%s, a, b)) and has_node(%s, a) and has_node(%s, b)) for a in every('node') for b in every('node'))" % (G, G, G, G),
            "all(implies(is_item(n) and key(n) in obj(n).data, old(key(n) in obj(n).data)) for n in every('node'))",
            "all(implies(is_item(n) and key(n) in obj(n).input_keys, old(key(n) in obj(n).input_keys)) for n in every('node'))",
            "all(implies(is_item(n) and old(has_node(%s, n)) and not has_node(%s, n), key(n) not in obj(n).data) for n in every('node'))" % (G, G),
            "GWF(%s) and RGWF(self.model.refgraph) and HELD(%s) and OWN(self.model) and INPUT_BARE(%s)" % (G, G, G),
            "unchanged(self.cells)",
            "all(implies(is_item(n) and old(has_node(%s, n)) and not has_node(%s, n), key(n) not in obj(n).input_keys) for n in every('node'))" % (G, G),
            "all(implies(has_node(%s, objnode(c)), not c.is_cached) for c in every('CellsImpl'))" % G,
            # the cells not yet processed still satisfy the per-cells invariants clear_all_values needs
            "all(implies(nm in self.cells and nm not in _done and k in self.cells[nm].data, has_node(%s, item(self.cells[nm], k))) for nm in every('str') for k in every('key'))" % G,
            "all(implies(nm in self.cells and nm not in _done and k in self.cells[nm].input_keys, k in self.cells[nm].data) for nm in every('str') for k in every('key'))",
        ], "modifies": ["content(%s)" % G, "content(self.model.refgraph)", "every_content('dict[key,val]')", "every_content('set[key]')",
                        "every(Impl.ghost_deleted)"]}},
        modifies=["content(%s)" % G, "content(self.model.refgraph)", "every_content('dict[key,val]')", "every_content('set[key]')",
                  "every(Impl.ghost_deleted)"],
        alloc=True)
    P["_space"] = ["BaseSpaceImpl.on_delete"]


def register2(R, P):
    R.cls("Formula"); R.cls("NullFormula", bases=("Formula",))
    R.globals["NULL_FORMULA"] = "NullFormula"
    R.cls("UserCellsImpl", bases=("CellsImpl",), consts={"PROP_FORMULA": 1, "PROP_CACHE": 2},
          fields={"formula": "object", "name": "str", "ghost_defined": "bool"})
    R.contract("extern::UserCellsImpl.is_derived", trusted=True, pure=True, params={"self": "UserCellsImpl"}, returns="bool",
               ensures=["result == (not self.ghost_defined)"])
    R.contract("extern::UserCellsImpl.set_defined", trusted=True, params={"self": "UserCellsImpl"},
               ensures=["self.ghost_defined"], modifies=["self.ghost_defined"])
    R.contract("extern::CellsBoundFunction.__init__", trusted=True,
               note="constructor of the bound function (namespace observer registration is glue: bounded)",
               params={"self": "CellsBoundFunction", "owner": "CellsImpl"}, ensures=["self.owner is owner", "self.fresh is self"],
               modifies=["self.owner", "self.fresh"], alloc=True)
    for q in ("UserCellsImpl.is_derived", "UserCellsImpl.set_defined", "CellsBoundFunction.__init__"):
        R.contracts[q] = R.contracts.pop(q)
    PRE = ["GWF(self.model.tracegraph)", "RGWF(self.model.refgraph)", "HELD(self.model.tracegraph)", "OWN(self.model)", "SEP()",
           "all(c.data is not d.input_keys for c in every('CellsImpl') for d in every('CellsImpl'))"]
    G = "self.model.tracegraph"
    POST = [
        # C02/C09: whatever is edited (formula, cached flag -- in either direction), no element of this cells, nor its object node,
        # nor anything computed from them, survives the edit
        "NO-OBJ:: all(not (has_node(%s, n) and obj(n) is self) for n in every('node'))" % G,
        "CLOSED:: all(implies(old(has_edge(%s, a, b)) and old(has_node(%s, a)) and not has_node(%s, a), not has_node(%s, b)) for a in every('node') for b in every('node'))" % (G, G, G, G),
        "REMOVED-LOSE-DATA:: all(implies(is_item(n) and old(has_node(%s, n)) and not has_node(%s, n), key(n) not in obj(n).data) for n in every('node'))" % (G, G),
        "HELD:: HELD(%s)" % G, "GWF:: GWF(%s)" % G,
    ]
    R.contract("modelx/core/cells.py::UserCellsImpl.on_set_property",
        params={"self": "UserCellsImpl", "flags": "int", "define": "bool", "func": "object", "enable_cache": "bool"},
        requires=PRE,
        ensures=POST + ["FLAG:: implies(bitand_nz(flags, 2), self.is_cached == enable_cache)",
                        "DEFINED:: implies(define, self.ghost_defined)"],
        raises={"*": POST},
        modifies=["content(%s)" % G, "content(self.model.refgraph)", "every_content('dict[key,val]')", "every_content('set[key]')",
                  "self.ghost_defined", "self.formula", "self.altfunc", "self.is_cached", "every(CellsBoundFunction.owner)", "every(CellsBoundFunction.fresh)"],
        alloc=True)
    P["_space"] += ["UserCellsImpl.on_set_property"]
