"""Contract for LazyEval.notify (modelx/core/base.py) — LZ-up (C01 C02 C07 C12): staleness propagates to every observer,
so a stale namespace is never consulted as if it were fresh."""

F = "modelx/core/base.py"
VIOL = "(0 <= k and k < len(s.observers) and not s.is_fresh and s.observers[k].is_fresh)"


def register(R, P):
    R.cls("LazyEval", fields={"is_fresh": "bool", "observers": "list[LazyEval]"})
    R.contract(F + "::LazyEval.notify",
        params={"self": "LazyEval"},
        requires=["all(s.observers is not null for s in every('LazyEval'))"],
        ensures=[
            "STALE:: not self.is_fresh",
            "MONOTONE:: all(implies(x.is_fresh, old(x.is_fresh)) for x in every('LazyEval'))",
            # LZ-up: (subject stale, observer fresh) pairs never appear, and self ends with none: hence if there was no such
            # pair before (LZ-up held), there is none after, and every observer of self is stale
            "NO-NEW-STALE-SUBJECT-WITH-FRESH-OBSERVER:: all(implies(%s, old(%s) and s is not self) for s in every('LazyEval') for k in every('int'))" % (VIOL, VIOL),
            "OBSERVERS-STALE:: all(not self.observers[k].is_fresh for k in range(len(self.observers)))",
            "LISTS-UNCHANGED:: all(unchanged(s.observers) for s in every('LazyEval'))",
        ],
        note="termination (the number of fresh objects strictly decreases along the recursion) is not proved",
        loops={0: {"inv": [
            "not self.is_fresh",
            "all(implies(x.is_fresh, old(x.is_fresh)) for x in every('LazyEval'))",
            "all(implies(%s, (old(%s) and s is not self) or (s is self and k >= _i)) for s in every('LazyEval') for k in every('int'))" % (VIOL, VIOL),
            "all(unchanged(s.observers) for s in every('LazyEval'))", "_s == seqof(self.observers)",
        ], "modifies": ["every(LazyEval.is_fresh)"]}},
        modifies=["every(LazyEval.is_fresh)"])
    P["_lazy"] = ["LazyEval.notify"]
