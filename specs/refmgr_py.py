"""Contracts for ReferenceManager (modelx/core/model.py) — C18: an IOSpec lives exactly as long as a reference to its value.

V = self._valid_to_refs : id(value) -> list of the references (of this model) currently bound to that value."""
import z3
from pyvc.ty import *

M = "modelx/core/model.py"

# IOV (the part ReferenceManager maintains):
IOV = ("all(implies(i in rm._valid_to_refs, rm._valid_to_refs[i] is not null and len(rm._valid_to_refs[i]) > 0) for i in every('int'))"                     # no empty entry
       " and all(implies(i in rm._valid_to_refs, all(id_of(r.interface) == i and not is_instance_named(r.interface, 'Interface')"
       "        for r in rm._valid_to_refs[i])) for i in every('int'))"                                                  # listed refs are bound to that value
       " and all(implies(i in rm._valid_to_refs and 0 <= a and a < b and b < len(rm._valid_to_refs[i]),"
       "        rm._valid_to_refs[i][a] is not rm._valid_to_refs[i][b]) for i in every('int') for a in every('int') for b in every('int'))"   # no duplicates
       " and all(implies(i in rm._valid_to_refs and j in rm._valid_to_refs and i != j, rm._valid_to_refs[i] is not rm._valid_to_refs[j])"
       "        for i in every('int') for j in every('int'))"                                                            # one list object per entry
       # a spec of this model exists only while its value is bound to at least one reference
       " and all(implies(s in rm._manager.specs and s.group is rm._model.interface, id_of(s.value) in rm._valid_to_refs) for s in every('IOSpec'))")


def register(R, P):
    R.cls("IOSpec", fields={"value": "val", "group": "val"})
    R.cls("IOManager", fields={"specs": "set[IOSpec]"},
          doc="ghost view: `specs` = the set of IOSpec objects the manager holds (io_groups/… bookkeeping abstracted)")
    R.cls("SpaceManager")
    if "ReferenceManager" not in R.classes: R.cls("ReferenceManager")
    R.cls("RefHolder", bases=("Impl",), fields={"own_refs": "dict[str,ReferenceImpl]", "model": "ModelImpl"},
          doc="a ModelImpl or UserSpaceImpl seen through its own_refs mapping (a property; modelled as a field)")
    R.classes["ReferenceImpl"].fields.update({"interface": "val"})
    R.classes["ModelImpl"].fields.update({"spmgr": "SpaceManager", "interface": "val"})
    R.classes["ReferenceManager"].fields.update({"_model": "ModelImpl", "_manager": "IOManager", "_valid_to_refs": "dict[int,list[ReferenceImpl]]"})
    R.macro("IOV", ["rm"], IOV)

    # ---- trusted: what the model/space layer does when a reference is created / deleted / changed -------------------------
    # (SpaceManager / ModelImpl reference operations incl. propagation to sub spaces are not under contract; their effect on
    #  what ReferenceManager reads is stated here; everything not in `modifies` -- the tables of ReferenceManager and
    #  IOManager in particular -- is untouched by the modular call rule.  Checked by the bounded driver of C18.)
    KEEP = "OLD-REFS-KEEP-VALUE:: all(implies(not fresh(r), r.interface == old(r.interface)) for r in every('ReferenceImpl'))"
    LMOD = ["every_content('dict[str,ReferenceImpl]')", "every(ReferenceImpl.interface)"]
    NOTE = "model/space layer, not under contract: frame + effect on own_refs as read from model.py/space.py; bounded driver of C18"
    def rejected(h):
        return {"*": [KEEP, "REJECTED-NO-REF:: all((k in %s.own_refs) == old(k in %s.own_refs) and implies(k in %s.own_refs, %s.own_refs[k] is old(%s.own_refs[k])) for k in every('str'))" % ((h,) * 5)]}
    def created(h): return "CREATED:: fresh(result) and result.interface == value and name in %s.own_refs and %s.own_refs[name] is result" % (h, h)
    def deleted(h): return "DELETED:: name not in %s.own_refs" % h
    def changed(h): return "CHANGED:: name in %s.own_refs and fresh(%s.own_refs[name]) and %s.own_refs[name].interface == value" % (h, h, h)
    R.contract("extern::RefHolder.new_ref", trusted=True, note=NOTE, params={"self": "RefHolder", "name": "str", "value": "val"},
               returns="ReferenceImpl", ensures=[created("self"), KEEP], raises=rejected("self"), modifies=LMOD, alloc=True)
    R.contract("extern::RefHolder.del_ref", trusted=True, note=NOTE, params={"self": "RefHolder", "name": "str"},
               ensures=[deleted("self"), KEEP], raises=rejected("self"), modifies=LMOD, alloc=True)
    R.contract("extern::ModelImpl.change_ref", trusted=True, note=NOTE, params={"self": "RefHolder", "name": "str", "value": "val"},
               ensures=[changed("self"), KEEP], raises=rejected("self"), modifies=LMOD, alloc=True)
    R.contract("extern::SpaceManager.new_ref", trusted=True, note=NOTE,
               params={"self": "SpaceManager", "space": "RefHolder", "name": "str", "value": "val", "refmode": "str"},
               returns="ReferenceImpl", ensures=[created("space"), KEEP], raises=rejected("space"), modifies=LMOD, alloc=True)
    R.contract("extern::SpaceManager.del_ref", trusted=True, note=NOTE, params={"self": "SpaceManager", "space": "RefHolder", "name": "str"},
               ensures=[deleted("space"), KEEP], raises=rejected("space"), modifies=LMOD, alloc=True)
    R.contract("extern::SpaceManager.change_ref", trusted=True, note=NOTE,
               params={"self": "SpaceManager", "space": "RefHolder", "name": "str", "value": "val", "refmode": "str"},
               ensures=[changed("space"), KEEP], raises=rejected("space"), modifies=LMOD, alloc=True)
    for q in ("RefHolder.new_ref", "RefHolder.del_ref", "ModelImpl.change_ref", "SpaceManager.new_ref", "SpaceManager.del_ref", "SpaceManager.change_ref"):
        R.contracts[q] = R.contracts.pop(q)

    R.contract("extern::IOManager.get_spec_from_value", trusted=True, pure=True,
        params={"self": "IOManager", "io_group": "val", "value": "val"}, returns="IOSpec",
        ensures=["FOUND:: implies(result is not None, result in self.specs and result.group is io_group and id_of(result.value) == id_of(value))",
                 "NONE:: implies(result is None, all(not (s in self.specs and s.group is io_group and id_of(s.value) == id_of(value)) for s in every('IOSpec')))"])
    R.contract("extern::IOManager.del_spec", trusted=True,
        params={"self": "IOManager", "spec": "IOSpec"},
        ensures=["all((s in self.specs) == (old(s in self.specs) and s is not spec) for s in every('IOSpec'))"],
        modifies=["content(self.specs)"])
    for q in ("IOManager.get_spec_from_value", "IOManager.del_spec"):
        R.contracts[q] = R.contracts.pop(q)
    # one spec per (group, value): IOManager keeps its own tables consistent (C18, clause 'two specs never claim the same location' is bounded)
    UNIQ = "all(implies(s in rm._manager.specs and t in rm._manager.specs and s.group is t.group and id_of(s.value) == id_of(t.value), s is t) for s in every('IOSpec') for t in every('IOSpec'))"
    R.macro("SPEC_UNIQ", ["rm"], UNIQ)
    SHAPE = ["is_instance_named(impl, 'ModelImpl') or is_instance_named(impl, 'UserSpaceImpl')",
             "implies(is_instance_named(impl, 'ModelImpl'), impl.model is impl)", "IOV(self)", "SPEC_UNIQ(self)",
             "self._manager.specs is not null"]
    MOD = LMOD + ["content(self._valid_to_refs)", "every_content('list[ReferenceImpl]')", "content(self._manager.specs)"]
    REGISTERED = "implies(not is_instance_named(r.interface, 'Interface'), id_of(r.interface) in self._valid_to_refs and r in elems(self._valid_to_refs[id_of(r.interface)]))"

    R.contract(M + "::ReferenceManager.new_ref",
        params={"self": "ReferenceManager", "impl": "RefHolder", "name": "str", "value": "val", "refmode": "str"},
        requires=SHAPE,
        ensures=[
            "IOV:: IOV(self)",
            # C18: the new reference is listed under the identity of its value (non-interface values only)
            "LISTED:: implies(not is_instance_named(value, 'Interface'), id_of(value) in self._valid_to_refs and impl.own_refs[name] in elems(self._valid_to_refs[id_of(value)]))",
            "OTHERS:: all(implies(old(i in self._valid_to_refs), i in self._valid_to_refs and all(r in elems(self._valid_to_refs[i]) for r in old(elems(self._valid_to_refs[i])))) for i in every('int'))",
            "SPECS:: unchanged(self._manager.specs)",
        ],
        raises={"*": ["IOV:: IOV(self)", "UNCHANGED:: unchanged(self._valid_to_refs) and unchanged(self._manager.specs)"]},
        modifies=MOD, alloc=True)
    HELD = "name in impl.own_refs and implies(not is_instance_named(impl.own_refs[name].interface, 'Interface'), id_of(impl.own_refs[name].interface) in self._valid_to_refs and impl.own_refs[name] in elems(self._valid_to_refs[id_of(impl.own_refs[name].interface)]))"
    GONE = "all(implies(i in self._valid_to_refs and 0 <= a and a < len(self._valid_to_refs[i]), self._valid_to_refs[i][a] is not old(impl.own_refs[name])) for i in every('int') for a in every('int'))"
    R.contract(M + "::ReferenceManager.del_ref",
        params={"self": "ReferenceManager", "impl": "RefHolder", "name": "str"},
        requires=SHAPE + [HELD],
        ensures=[
            "IOV:: IOV(self)",
            "UNLISTED:: " + GONE,
            # C18: the spec goes exactly when the last reference to its value goes
            "SPEC-KEPT-WHILE-BOUND:: all(implies(old(s in self._manager.specs) and id_of(s.value) in self._valid_to_refs, s in self._manager.specs) for s in every('IOSpec'))",
            "OTHERS:: all(implies(old(i in self._valid_to_refs) and i != old(id_of(impl.own_refs[name].interface)), i in self._valid_to_refs and unchanged(self._valid_to_refs[i])) for i in every('int'))",
        ],
        raises={"*": ["IOV:: IOV(self)", "UNCHANGED:: unchanged(self._valid_to_refs) and unchanged(self._manager.specs)"]},
        modifies=MOD, alloc=True)

    R.contract(M + "::ReferenceManager.change_ref",
        params={"self": "ReferenceManager", "impl": "RefHolder", "name": "str", "value": "val", "refmode": "str"},
        requires=SHAPE + ["name in impl.own_refs"],
        ensures=[
            "IOV:: IOV(self)",
            "LEMMA-LAST:: implies(not is_instance_named(value, 'Interface'), id_of(value) in self._valid_to_refs"
            " and self._valid_to_refs[id_of(value)][len(self._valid_to_refs[id_of(value)]) - 1] is impl.own_refs[name])",
            "LISTED:: implies(not is_instance_named(value, 'Interface'), id_of(value) in self._valid_to_refs and impl.own_refs[name] in elems(self._valid_to_refs[id_of(value)]))",
            "UNLISTED:: " + GONE,
            # C18 (#18): re-binding the SAME object keeps its entry, hence its spec
            "SAME-OBJECT-KEEPS-SPEC:: implies(not is_instance_named(value, 'Interface') and old(id_of(impl.own_refs[name].interface)) == id_of(value),"
            " all(implies(old(s in self._manager.specs), s in self._manager.specs) for s in every('IOSpec')))",
            "SPEC-KEPT-WHILE-BOUND:: all(implies(old(s in self._manager.specs) and id_of(s.value) in self._valid_to_refs, s in self._manager.specs) for s in every('IOSpec'))",
        ],
        raises={"*": ["IOV:: IOV(self)", "UNCHANGED:: unchanged(self._valid_to_refs) and unchanged(self._manager.specs)"]},
        modifies=MOD, alloc=True)
    R.classes["ReferenceImpl"].fields.update({"ghost_defined": "bool"})
    R.contract("extern::ReferenceImpl.is_defined", trusted=True, pure=True, params={"self": "ReferenceImpl"}, returns="bool",
               ensures=["result == self.ghost_defined"])
    R.contracts["ReferenceImpl.is_defined"] = R.contracts.pop("ReferenceImpl.is_defined")
    V = "self._valid_to_refs"
    MINE = "any(nm in space.own_refs and space.own_refs[nm] is %s for nm in every('str'))"
    INJ = "all(implies(a in space.own_refs and b in space.own_refs and space.own_refs[a] is space.own_refs[b], a == b) for a in every('str') for b in every('str'))"
    NONNULL = "all(implies(nm in space.own_refs, space.own_refs[nm] is not null) for nm in every('str'))"
    R.contract(M + "::ReferenceManager.new_space_refs",
        params={"self": "ReferenceManager", "space": "RefHolder"},
        requires=["IOV(self)", INJ, NONNULL, "space.own_refs is not self._valid_to_refs",
                  # the space is new: none of its references is listed yet
                  "all(implies(i in %s and 0 <= a and a < len(%s[i]), not (%s)) for i in every('int') for a in every('int'))" % (V, V, MINE % ("%s[i][a]" % V))],
        ensures=[
            "IOV:: IOV(self)",
            # C18: every DEFINED non-interface reference given to the new space is listed under its value ...
            "LISTED:: all(implies(nm in space.own_refs and space.own_refs[nm].ghost_defined and not is_instance_named(space.own_refs[nm].interface, 'Interface'),"
            " id_of(space.own_refs[nm].interface) in %s and any(%s[id_of(space.own_refs[nm].interface)][p] is space.own_refs[nm] for p in range(len(%s[id_of(space.own_refs[nm].interface)])))) for nm in every('str'))" % (V, V, V),
            # ... and no DERIVED one is (a derived reference is discarded by re-derivation, never through del_ref: listing it
            # would keep the entry, hence the spec, alive for ever)
            "ONLY-DEFINED:: all(implies(i in %s and 0 <= a and a < len(%s[i]) and (%s), %s[i][a].ghost_defined) for i in every('int') for a in every('int'))" % (V, V, MINE % ("%s[i][a]" % V), V),
            "OLD-KEPT:: all(implies(old(i in %s) and 0 <= a and a < old(len(%s[i])), i in %s and a < len(%s[i]) and %s[i][a] is old(%s[i][a])) for i in every('int') for a in every('int'))" % (V, V, V, V, V, V),
            "SPECS:: unchanged(self._manager.specs)",
        ],
        loops={0: {"inv": [
            "IOV(self)",
            "all(implies(nm in _done and space.own_refs[nm].ghost_defined and not is_instance_named(space.own_refs[nm].interface, 'Interface'),"
            " id_of(space.own_refs[nm].interface) in %s) for nm in every('str'))" % V,
            "all(implies(nm in _done and space.own_refs[nm].ghost_defined and not is_instance_named(space.own_refs[nm].interface, 'Interface'),"
            " any(%s[id_of(space.own_refs[nm].interface)][p] is space.own_refs[nm] for p in range(len(%s[id_of(space.own_refs[nm].interface)])))) for nm in every('str'))" % (V, V),
            "all(implies(i in %s and 0 <= a and a < len(%s[i]) and nm in space.own_refs and space.own_refs[nm] is %s[i][a], %s[i][a].ghost_defined and nm in _done) for i in every('int') for a in every('int') for nm in every('str'))" % (V, V, V, V),
            "all(implies(old(i in %s) and 0 <= a and a < old(len(%s[i])), i in %s and a < len(%s[i]) and %s[i][a] is old(%s[i][a])) for i in every('int') for a in every('int'))" % (V, V, V, V, V, V),
            "unchanged(space.own_refs)",
        ], "modifies": ["content(%s)" % V, "every_content('list[ReferenceImpl]')"]}},
        modifies=["content(%s)" % V, "every_content('list[ReferenceImpl]')"], alloc=True)
    LISTED_AT = "(i in %s and 0 <= a and a < len(%s[i]))" % (V, V)
    R.contract(M + "::ReferenceManager.del_space_refs",
        params={"self": "ReferenceManager", "space": "RefHolder"},
        requires=["IOV(self)", "SPEC_UNIQ(self)", INJ, NONNULL, "space.own_refs is not self._valid_to_refs", "self._manager.specs is not null"],
        ensures=[
            "IOV:: IOV(self)",
            # C18: no reference of the deleted space stays listed ...
            "UNLISTED-ALL:: all(implies(%s, not (%s)) for i in every('int') for a in every('int'))" % (LISTED_AT, MINE % ("%s[i][a]" % V)),
            # (that every OTHER listed reference stays listed is checked by the bounded driver only: the membership invariant
            #  through list.remove was not discharged within budget)
            "ONLY-OLD-LISTED:: all(implies(i in %s and 0 <= a and a < len(%s[i]), any(0 <= b and b < old(len(%s[i])) and %s[i][a] is old(%s[i][b]) for b in every('int'))) for i in every('int') for a in every('int'))" % (V, V, V, V, V),
            # ... and a spec goes exactly when the last reference to its value went
            "SPEC-KEPT-WHILE-BOUND:: all(implies(old(s in self._manager.specs) and id_of(s.value) in %s, s in self._manager.specs) for s in every('IOSpec'))" % V,
            "NO-NEW-ENTRY:: all(implies(i in %s, old(i in %s)) for i in every('int'))" % (V, V),
        ],
        loops={0: {"inv": [
            "IOV(self)", "SPEC_UNIQ(self)",
            "all(implies(%s and nm in _done and nm in space.own_refs, %s[i][a] is not space.own_refs[nm]) for i in every('int') for a in every('int') for nm in every('str'))" % (LISTED_AT, V),
            "all(implies(old(s in self._manager.specs) and id_of(s.value) in %s, s in self._manager.specs) for s in every('IOSpec'))" % V,
            "all(implies(i in %s, old(i in %s)) for i in every('int'))" % (V, V),
            "all(implies(i in %s and 0 <= a and a < len(%s[i]), any(0 <= b and b < old(len(%s[i])) and %s[i][a] is old(%s[i][b]) for b in every('int'))) for i in every('int') for a in every('int'))" % (V, V, V, V, V),
            "all(implies(s in self._manager.specs, old(s in self._manager.specs)) for s in every('IOSpec'))",
            "unchanged(space.own_refs)", "all(r.interface == old(r.interface) for r in every('ReferenceImpl'))",
        ], "modifies": ["content(%s)" % V, "every_content('list[ReferenceImpl]')", "content(self._manager.specs)"]}},
        modifies=["content(%s)" % V, "every_content('list[ReferenceImpl]')", "content(self._manager.specs)"], alloc=True)
    # ---- update_value (update_pandas / update_module): every reference bound to old_value is re-bound to the new value ----------
    R.classes["ReferenceImpl"].fields.update({"name": "str"})
    R.contract("extern::ReferenceManager._impl_change_ref", trusted=True,
        note="static 6-line dispatcher to ModelImpl.change_ref / SpaceManager.change_ref (model/space layer, not under contract): the "
             "name is re-bound to a FRESH reference object holding `value`; every other reference object keeps its value, every other "
             "name and every other holder keep their reference objects",
        params={"impl": "RefHolder", "name": "str", "value": "val", "refmode": "str"},
        requires=["name in impl.own_refs"],
        ensures=["name in impl.own_refs and fresh(impl.own_refs[name]) and impl.own_refs[name].interface == value"
                 " and impl.own_refs[name].parent is impl and impl.own_refs[name].name == name",
                 "all(implies(not fresh(r), r.interface == old(r.interface) and r.parent is old(r.parent) and r.name == old(r.name) and r.refmode == old(r.refmode)) for r in every('ReferenceImpl'))",
                 "all(implies(h is not impl or k != name, (k in h.own_refs) == old(k in h.own_refs) and h.own_refs[k] is old(h.own_refs[k])) for h in every('RefHolder') for k in every('str'))"],
        raises={}, modifies=["every_content('dict[str,ReferenceImpl]')", "every(ReferenceImpl.interface)", "every(ReferenceImpl.parent)", "every(ReferenceImpl.name)",
                             "every(ReferenceImpl.refmode)"], alloc=True)
    R.contract("extern::IOManager.update_spec_value", trusted=True,
        note="IOManager.update_spec_value -> BaseIOSpec._on_update_value: the spec now carries the (possibly converted) new value, never a modelx Interface",
        params={"self": "IOManager", "spec": "IOSpec", "value": "val", "kwargs": "object"},
        ensures=["not is_instance_named(spec.value, 'Interface')", "spec in self.specs"], raises={"*": ["spec.value == old(spec.value)"]},
        modifies=["spec.value"], alloc=True)
    R.contract(M + "::ReferenceManager.has_spec",
        params={"self": "ReferenceManager", "value": "val"}, returns="bool",
        ensures=["result == any(s in self._manager.specs and s.group is self._model.interface and id_of(s.value) == id_of(value) for s in every('IOSpec'))"],
        modifies=[], alloc=True)
    PV = "old(id_of(old_value))"
    R.contract(M + "::ReferenceManager.update_value",
        params={"self": "ReferenceManager", "old_value": "val", "new_value": "val", "kwargs": "object"},
        nullable=["new_value", "kwargs"],
        field_types={"ReferenceImpl.parent": "RefHolder"},
        requires=["IOV(self)", "SPEC_UNIQ(self)", "self._manager.specs is not null",
                  "not is_instance_named(new_value, 'Interface')", "not is_instance_named(old_value, 'Interface')",
                  # REG: a listed reference is the current member of its holder under its name
                  "all(implies(i in %s and 0 <= a and a < len(%s[i]), %s[i][a].parent is not null and %s[i][a].name in %s[i][a].parent.own_refs"
                  " and %s[i][a].parent.own_refs[%s[i][a].name] is %s[i][a]) for i in every('int') for a in every('int'))" % ((V,) * 8),
                  "all(h.own_refs is not %s for h in every('RefHolder'))" % V],
        ensures=[
            "IOV:: IOV(self)",
            # C18: the references that were bound to the NEW value before stay listed under it (the updated ones are added, not substituted)
            "KEPT-UNDER-NEW:: all(implies(old(i in %s) and i != %s and 0 <= a and a < old(len(%s[i])), i in %s and a < len(%s[i]) and %s[i][a] is old(%s[i][a])) for i in every('int') for a in every('int'))" % (V, PV, V, V, V, V, V),
            "NO-OTHER-NEW-ENTRY:: all(implies(i in %s and not old(i in %s), all(fresh(r) for r in %s[i])) for i in every('int'))" % (V, V, V),
            "OLD-ENTRY-MOVED:: implies(%s in %s, all(fresh(r) for r in %s[%s]))" % (PV, V, V, PV),
        ],
        raises={"ValueError": ["UNCHANGED:: unchanged(%s) and unchanged(self._manager.specs)" % V],
                # IOManager.update_spec_value refusing the new value: nothing was re-bound yet
                "*": ["UNCHANGED:: unchanged(%s) and unchanged(self._manager.specs)" % V]},
        loops={0: {"inv": [
            "refs is %s[id_of(old_value)] and id_of(old_value) in %s and refs is not null and newrefs is not null and newrefs is not refs" % (V, V),
            "all((i in %s) == old(i in %s) and %s[i] is old(%s[i]) for i in every('int'))" % (V, V, V, V),
            "all(implies(old(i in %s) and i != id_of(old_value), unchanged(%s[i])) for i in every('int'))" % (V, V),
            "all(implies(0 <= a and a < len(refs), refs[a] is old(%s[id_of(old_value)][a])) for a in every('int')) and len(refs) <= old(len(%s[id_of(old_value)]))" % (V, V),
            "all(fresh(r) and r.interface == new_value and r is not null for r in newrefs)",
            "all(implies(0 <= a and a < b and b < len(newrefs), newrefs[a] is not newrefs[b]) for a in every('int') for b in every('int'))",
            "all(implies(not fresh(r), r.interface == old(r.interface) and r.parent is old(r.parent) and r.name == old(r.name)) for r in every('ReferenceImpl'))",
            "all(implies(i in %s and 0 <= a and a < len(%s[i]) and (i != id_of(old_value)), %s[i][a].name in %s[i][a].parent.own_refs"
            " and %s[i][a].parent.own_refs[%s[i][a].name] is %s[i][a]) for i in every('int') for a in every('int'))" % ((V,) * 7),
            "all(implies(0 <= a and a < len(refs), refs[a].name in refs[a].parent.own_refs and refs[a].parent.own_refs[refs[a].name] is refs[a]) for a in every('int'))",
            "not is_instance_named(new_value, 'Interface')",
            "len(newrefs) + len(refs) == old(len(%s[id_of(old_value)]))" % V,
        ], "modifies": ["every_content('dict[str,ReferenceImpl]')", "every(ReferenceImpl.interface)", "every(ReferenceImpl.parent)", "every(ReferenceImpl.name)",
                        "every(ReferenceImpl.refmode)", "every_content('list[ReferenceImpl]')"]}},
        locals={"newrefs": "list[ReferenceImpl]"},
        modifies=["every_content('dict[str,ReferenceImpl]')", "every(ReferenceImpl.interface)", "every(ReferenceImpl.parent)", "every(ReferenceImpl.name)",
                  "every(ReferenceImpl.refmode)", "content(%s)" % V, "every_content('list[ReferenceImpl]')", "every(IOSpec.value)"],
        alloc=True)
    P["_refmgr"] = ["ReferenceManager.new_ref", "ReferenceManager.del_ref", "ReferenceManager.change_ref", "ReferenceManager.new_space_refs",
                    "ReferenceManager.del_space_refs", "ReferenceManager.has_spec", "ReferenceManager.update_value"]
