"""Class declarations: the fields of modelx objects the verified functions touch, with their types.
A field listed here is an assumption about the shape of the object (checked by the run-time drivers)."""


def register(R, P):
    R.consts.update({"OBJ": 0, "KEY": 1})
    R.consts["nx.__version__"] = "3.6.1"      # environment fact: the installed networkx (trusted; setup_cmd prints it)
    R.cls("object")
    R.cls("TypeObj"); R.cls("TracebackObj")
    R.cls("BaseException")
    for e in R.exc_parents:
        if e != "BaseException":
            R.cls(e, bases=(R.exc_parents[e] or "BaseException",))
    R.cls("System", fields={"executor": "Executor", "callstack": "CallStack", "_recalc_dependents": "bool"})
    R.cls("CellsBoundFunction", fields={"owner": "CellsImpl", "fresh": "CellsBoundFunction"},
          doc="`fresh` (LazyEval.fresh, a property that refreshes the bound function and returns it) is modelled as a field read; "
              "the refresh is part of the abstract procedure FormulaRun")
    R.cls("TraceGraph", content="graph")
    R.cls("ReferenceGraph", content="graph[rnode]")
    R.cls("TraceManager")
    R.cls("ModelImpl", bases=("TraceManager", "Impl"), fields={"tracegraph": "TraceGraph", "refgraph": "ReferenceGraph", "system": "System"})
    R.cls("NodeObj", fields={
        "is_cached": "bool", "model": "ModelImpl", "data": "dict[key,val]", "system": "System"},
        doc="objects that appear as node[OBJ]: cells and parametrised spaces (ItemSpaceParent.data is param_spaces)")
    R.cls("CellsImpl", bases=("NodeObj", "Impl"), fields={
        "input_keys": "set[key]", "altfunc": "CellsBoundFunction"})
    R.cls("Impl", fields={"allow_none": "val", "parent": "Impl"})
    R.cls("ReferenceImpl")
    R.cls("NonThreadedExecutor")
    R.cls("Executor", bases=("NonThreadedExecutor",), fields={
        "refstack": "deque[tuple[int,ReferenceImpl]]", "rolledback": "deque[tuple[int,BaseException,node]]", "callstack": "CallStack",
        "ghost_runs": "int",
        "is_executing": "bool", "is_formula_error_used": "bool", "is_formula_error_handled": "bool",
        "excinfo": "tuple[TypeObj,BaseException,TracebackObj]", "errorstack": "ErrorStack", "buffer": "val"})
    R.cls("ErrorStack")
    R.cls("CallStack", content="deque[node]", fields={
        "executor": "Executor", "refstack": "deque[tuple[int,ReferenceImpl]]", "idxstack": "deque[int]",
        "counter": "int", "maxdepth": "int"})
