"""Contracts for modelx/core/system.py: the executor (CallStack, NonThreadedExecutor) and the model registry.

Top-level clauses are taken from the property statements (C01 C05 C08 C09 C17 C19); shapes, frames and helper
preconditions from the code and its call sites."""

F = "modelx/core/system.py"

# WF — executor well-formedness (DESIGN.md section 3)
WF = """(
    len(cs) == len(cs.idxstack) and cs.counter == len(cs) and cs.maxdepth >= 0
    and cs.refstack is cs.executor.refstack and cs.executor.callstack is cs
    and cs is not cs.idxstack and cs is not cs.refstack and cs is not cs.executor.rolledback
    and cs.idxstack is not cs.refstack and cs.idxstack is not cs.executor.rolledback
    and cs.refstack is not cs.executor.rolledback
    and all(is_item(cs[i]) for i in range(len(cs)))
    and all(cs.idxstack[i] == (i if cs[i][0].is_cached else (cs.idxstack[i - 1] if i > 0 else -1)) for i in range(len(cs)))
    and all(-1 <= cs.idxstack[i] and cs.idxstack[i] <= i for i in range(len(cs)))
    and all(implies(cs.idxstack[i] >= 0, cs[cs.idxstack[i]][0].is_cached) for i in range(len(cs)))
    and all(0 <= cs.refstack[j][0] and cs.refstack[j][0] < len(cs) for j in range(len(cs.refstack)))
    and all(implies(j1 <= j2, cs.refstack[j1][0] <= cs.refstack[j2][0])
            for j1 in range(len(cs.refstack)) for j2 in range(len(cs.refstack)))
)"""

# one model per evaluation chain: every cells on the stack belongs to the model of the bottom frame
# (kept out of WF: modelx does not enforce it; stated where needed)


def register(R, P):
    R.macro("WF", ["cs"], WF)
    # caller of the frame on top AFTER a pop: nearest cached frame, if any
    R.macro("has_caller", ["cs"], "len(cs) > 0 and cs.idxstack[-1] >= 0")
    R.macro("caller", ["cs"], "cs[cs.idxstack[-1]]")

    R.contract(F + "::CallStack.append",
        params={"self": "CallStack", "item": "node"},
        requires=["WF(self)", "is_item(item)"],
        ensures=[
            "DEPTH:: old(len(self)) <= self.maxdepth",
            "STACK:: len(self) == old(len(self)) + 1 and self[-1] == item and all(self[i] == old(self[i]) for i in range(old(len(self))))",
            "IDX:: len(self.idxstack) == old(len(self.idxstack)) + 1 and all(self.idxstack[i] == old(self.idxstack[i]) for i in range(old(len(self))))",
            "NEAREST-CACHED:: self.idxstack[-1] == (old(len(self)) if item[0].is_cached else (old(self.idxstack[-1]) if old(len(self)) > 0 else -1))",
            "WF:: WF(self)",
            "REFSTACK:: unchanged(self.refstack)",
        ],
        raises={"DeepReferenceError": [
            "LIMIT:: old(len(self)) > self.maxdepth",
            "UNCHANGED:: unchanged(self, self.idxstack, self.refstack) and self.counter == old(self.counter)",
        ]},
        modifies=["content(self)", "content(self.idxstack)", "self.counter"])

    R.contract(F + "::CallStack.pop",
        params={"self": "CallStack"}, returns="node",
        requires=["WF(self)", "len(self) > 0", "GWF(self[-1][0].model.tracegraph)", "RGWF(self[-1][0].model.refgraph)",
                  "self[-1][0].model.tracegraph is not self[-1][0].model.refgraph"],
        ensures=[
            "RES:: result == old(self[-1])",
            "RGWF:: RGWF(result[0].model.refgraph)",
            "STACK:: seqof(self) == old(self[:-1])",
            "IDX:: seqof(self.idxstack) == old(self.idxstack[:-1])",
            "CNT:: self.counter == old(self.counter) - 1",
            "WF:: WF(self)",
            "GWF:: GWF(result[0].model.tracegraph)",
            # C08: the edge recorded is exactly callee -> nearest cached caller
            "EDGES:: all(has_edge(result[0].model.tracegraph, a, b) == (old(has_edge(self[-1][0].model.tracegraph, a, b))"
            " or (has_caller(self) and b == caller(self) and a == (result if result[0].is_cached else objnode(result[0]))))"
            " for a in every('node') for b in every('node'))",
            "NODES:: all(has_node(result[0].model.tracegraph, a) == (old(has_node(self[-1][0].model.tracegraph, a))"
            " or (result[0].is_cached and a == result)"
            " or (has_caller(self) and (a == caller(self) or a == (result if result[0].is_cached else objnode(result[0])))))"
            " for a in every('node'))",
            # no pending attribute read of the popped frame is left on the refstack, the rest is untouched
            "REFSTACK-PREFIX:: len(self.refstack) <= old(len(self.refstack)) and all(self.refstack[j] == old(self.refstack[j]) for j in range(len(self.refstack)))",
            "REFSTACK-DRAINED:: all(old(self.refstack[j][0]) == self.counter for j in range(len(self.refstack), old(len(self.refstack))))",
            "NO-PENDING:: all(self.refstack[j][0] < self.counter for j in range(len(self.refstack)))",
            # C17: nodes unwound by errors handled inside the completed element are forgotten, older ones kept
            "RB-PURGE:: len(self.executor.rolledback) <= old(len(self.executor.rolledback))"
            " and all(self.executor.rolledback[j] == old(self.executor.rolledback[j]) for j in range(len(self.executor.rolledback)))"
            " and all(old(self.executor.rolledback[j][0]) > self.counter for j in range(len(self.executor.rolledback), old(len(self.executor.rolledback))))"
            " and implies(len(self.executor.rolledback) > 0, self.executor.rolledback[-1][0] <= self.counter)",
            # C02/C09 (R1): every attribute read made by the popped frame is recorded against an element that holds
            # a value: the element itself if cached, else the nearest cached caller
            "POP-REF-TARGET:: all(implies(result[0].is_cached or has_caller(self),"
            " has_edge(result[0].model.refgraph, old(self.refstack[j][1]), result if result[0].is_cached else caller(self)))"
            " for j in range(len(self.refstack), old(len(self.refstack))))",
        ],
        modifies=["content(self)", "content(self.idxstack)", "self.counter", "content(self.refstack)",
                  "content(self[-1][0].model.tracegraph)", "content(self[-1][0].model.refgraph)",
                  "content(self.executor.rolledback)"],
        loops={0: {
            "inv": [
                "len(self.refstack) <= old(len(self.refstack))",
                "all(self.refstack[j] == old(self.refstack[j]) for j in range(len(self.refstack)))",
                "all(old(self.refstack[j][0]) == self.counter for j in range(len(self.refstack), old(len(self.refstack))))",
                "all(implies(cells.is_cached or has_caller(self), has_edge(cells.model.refgraph, old(self.refstack[j][1]), node if cells.is_cached else caller(self)))"
                " for j in range(len(self.refstack), old(len(self.refstack))))",
                "cells is node[0] and node == old(self[-1])",
                "RGWF(cells.model.refgraph)",
            ],
            "modifies": ["content(self.refstack)", "content(node[0].model.refgraph)"],
        }, 1: {
            "inv": [
                "rolledback is self.executor.rolledback",
                "len(rolledback) <= old(len(self.executor.rolledback))",
                "all(rolledback[j] == old(self.executor.rolledback[j]) for j in range(len(rolledback)))",
                "all(old(self.executor.rolledback[j][0]) > self.counter for j in range(len(rolledback), old(len(self.executor.rolledback))))",
            ],
            "modifies": ["content(self.executor.rolledback)"],
        }})

    R.contract(F + "::CallStack.rollback",
        params={"self": "CallStack"},
        requires=["WF(self)", "len(self) > 0", "GWF(self[-1][0].model.tracegraph)", "RGWF(self[-1][0].model.refgraph)",
                  "self[-1][0].model.tracegraph is not self[-1][0].model.refgraph"],
        ensures=[
            "RGWF:: RGWF(old(self[-1])[0].model.refgraph)",
            "STACK:: seqof(self) == old(self[:-1])",
            "IDX:: seqof(self.idxstack) == old(self.idxstack[:-1])",
            "CNT:: self.counter == old(self.counter) - 1",
            "WF:: WF(self)",
            # C17: the unwound node is appended to rolledback
            "ROLLEDBACK:: len(self.executor.rolledback) == old(len(self.executor.rolledback)) + 1"
            " and self.executor.rolledback[-1] == (self.counter, ambient_exc(), old(self[-1]))"
            " and all(self.executor.rolledback[i] == old(self.executor.rolledback[i]) for i in range(old(len(self.executor.rolledback))))",
            # C05/C08: the failed element leaves the graph with its edges, nothing else changes
            "NODE-GONE:: not has_node(old(self[-1])[0].model.tracegraph, old(self[-1]))",
            "NODES:: all(implies(a != old(self[-1]), has_node(old(self[-1])[0].model.tracegraph, a) == old(has_node(self[-1][0].model.tracegraph, a))) for a in every('node'))",
            "EDGES:: all(has_edge(old(self[-1])[0].model.tracegraph, a, b) == (old(has_edge(self[-1][0].model.tracegraph, a, b)) and a != old(self[-1]) and b != old(self[-1])) for a in every('node') for b in every('node'))",
            "GWF:: GWF(old(self[-1])[0].model.tracegraph)",
            "REFSTACK-PREFIX:: len(self.refstack) <= old(len(self.refstack)) and all(self.refstack[j] == old(self.refstack[j]) for j in range(len(self.refstack)))",
            # C02: only the pending attribute reads of the FAILED frame are dropped; those of the frames still executing
            # (e.g. a caller that handles the error) stay, to be recorded when they complete
            "REFSTACK-DRAINED:: all(old(self.refstack[j][0]) == self.counter for j in range(len(self.refstack), old(len(self.refstack))))",
            "NO-PENDING:: all(self.refstack[j][0] < self.counter for j in range(len(self.refstack)))",
            "REFGRAPH:: not has_node(old(self[-1])[0].model.refgraph, old(self[-1]))",
        ],
        ambient_exc=True,
        modifies=["content(self)", "content(self.idxstack)", "self.counter", "content(self.refstack)",
                  "content(self.executor.rolledback)", "content(self[-1][0].model.tracegraph)",
                  "content(self[-1][0].model.refgraph)"],
        loops={0: {
            "inv": [
                "len(self.refstack) <= old(len(self.refstack))",
                "all(self.refstack[j] == old(self.refstack[j]) for j in range(len(self.refstack)))",
                "all(old(self.refstack[j][0]) == self.counter for j in range(len(self.refstack), old(len(self.refstack))))",
            ],
            "modifies": ["content(self.refstack)"],
        }})

    P.setdefault("_system", {})["callstack"] = ["CallStack.append", "CallStack.pop", "CallStack.rollback"]


def register_executor(R, P):
    M = "modelx/core/model.py"
    # ---- trusted / interface contracts used by the executor ------------------------------------------------
    # Stable: what running user code (a formula) may do to the executor state — the rely contract (DESIGN 2.6).
    STABLE = [
        "WF:: WF(cs(self))",
        "STACK:: unchanged(cs(self), cs(self).idxstack) and cs(self).counter == old(cs(self).counter)",
        "REFSTACK:: len(cs(self).refstack) >= old(len(cs(self).refstack))"
        " and all(cs(self).refstack[j] == old(cs(self).refstack[j]) for j in range(old(len(cs(self).refstack))))"
        " and all(cs(self).refstack[j][0] == cs(self).counter - 1 for j in range(old(len(cs(self).refstack)), len(cs(self).refstack)))",
        "EXECUTING:: self.system.executor.is_executing == old(self.system.executor.is_executing)",
        "RUNS:: self.system.executor.ghost_runs > old(self.system.executor.ghost_runs)",
        "GWF:: GWF(self.model.tracegraph)",
        "RGWF:: RGWF(self.model.refgraph)",
        "FLAGS:: all(c.is_cached == old(c.is_cached) for c in every('NodeObj'))",
        # A-PURE: a formula neither clears nor overwrites held values, and does not touch input flags
        "DATA-MONO:: all(implies(old(k in c.data), k in c.data and c.data[k] == old(c.data[k])) for c in every('NodeObj') for k in every('key'))",
        "INPUTS:: all(unchanged(c.input_keys) for c in every('CellsImpl'))",
    ]
    MONO = STABLE[-2:]
    R.macro("cs", ["o"], "o.system.executor.callstack")
    R.contract("extern::NodeObj.on_eval_formula", trusted=True,
        note="interface contract of CellsImpl.on_eval_formula / ItemSpaceParent.on_eval_formula: runs user code (rely contract "
             "Stable, assumption A-PURE); CellsImpl.on_eval_formula is proved to refine it under C01",
        params={"self": "NodeObj", "key": "key"}, returns="val",
        requires=["WF(cs(self))", "len(cs(self)) > 0", "cs(self)[-1] == item(self, key)", "GWF(self.model.tracegraph)", "RGWF(self.model.refgraph)"],
        ensures=STABLE + [
            "STORED:: implies(self.is_cached, key in self.data and self.data[key] == result)",
        ],
        raises={"*": STABLE},
        modifies=["every(NodeObj.data)" if False else "every_content('dict[key,val]')", "every_content('set[key]')",
                  "every_content('graph')", "every_content('graph[rnode]')",
                  "content(self.system.executor.refstack)", "content(self.system.executor.rolledback)",
                  "self.system.executor.ghost_runs"],
        alloc=True)
    R.contract("extern::FormulaRun", trusted=True,
        note="the abstract procedure 'run the user's formula' (bf.altfunc(*key)): rely contract Stable + A-PURE, assumed",
        params={"bf": "CellsBoundFunction", "key": "key"}, returns="val",
        requires=["WF(cs(bf.owner))", "len(cs(bf.owner)) > 0", "cs(bf.owner)[-1] == item(bf.owner, key)",
                  "GWF(bf.owner.model.tracegraph)", "RGWF(bf.owner.model.refgraph)"],
        ensures=[c.replace("self", "bf.owner") for c in STABLE],
        raises={"*": [c.replace("self", "bf.owner") for c in STABLE]},
        modifies=["every_content('dict[key,val]')", "every_content('set[key]')", "every_content('graph')", "every_content('graph[rnode]')",
                  "content(bf.owner.system.executor.refstack)", "content(bf.owner.system.executor.rolledback)",
                  "bf.owner.system.executor.ghost_runs"],
        alloc=True)
    R.contract("modelx/core/cells.py::CellsImpl.on_eval_formula",
        params={"self": "CellsImpl", "key": "key"}, returns="val",
        requires=["WF(cs(self))", "len(cs(self)) > 0", "cs(self)[-1] == item(self, key)", "GWF(self.model.tracegraph)", "RGWF(self.model.refgraph)",
                  "self.altfunc.fresh.owner is self", "has_setting(self)", "SEP()",
                  "all(self.data is not c.input_keys for c in every('CellsImpl'))"],
        # refines the interface contract NodeObj.on_eval_formula clause by clause ...
        ensures=[c for c in STABLE if not c.startswith("DATA-MONO")] + [
            "STORED:: implies(self.is_cached, key in self.data and self.data[key] == result)",
            # ... (C09: in the uncached branch the only effects are FormulaRun's own: there is no store call on that path)
            "DATA-MONO:: all(implies(old(k in c.data) and not (c is self and k == key), k in c.data and c.data[k] == old(c.data[k])) for c in every('NodeObj') for k in every('key'))",
        ],
        raises={"*": STABLE},
        modifies=["every_content('dict[key,val]')", "every_content('set[key]')", "every_content('graph')", "every_content('graph[rnode]')",
                  "content(self.system.executor.refstack)", "content(self.system.executor.rolledback)",
                  "self.system.executor.ghost_runs"],
        alloc=True)
    R.contract("extern::NodeObj.has_node", trusted=True, pure=True,
        note="CellsImpl.has_node is `key in self.data` (proved under C01); ItemSpaceParent.has_node is `key in self.param_spaces`",
        params={"self": "NodeObj", "key": "key"}, returns="bool",
        ensures=["result == (key in self.data)"])
    R.contract("extern::ErrorStack.__init__", trusted=True,
        note="pairs traceback frames with rolled-back nodes (frame grammar assumption of C17); checked boundedly by drivers/c17.py",
        params={"self": "ErrorStack", "execinfo": "tuple[TypeObj,BaseException,TracebackObj]",
                "rolledback": "deque[tuple[int,BaseException,node]]"},
        ensures=["len(rolledback) == 0"],
        modifies=["content(rolledback)"], alloc=True)
    R.contract("extern::ErrorStack.tracemessage", trusted=True, pure=True,
        params={"self": "ErrorStack", "maxlen": "int"}, returns="str", defaults={"maxlen": 20})

    EX = "self.callstack"
    R.contract(F + "::NonThreadedExecutor._eval_formula",
        params={"self": "Executor", "node": "node"}, returns="val",
        requires=["WF(self.callstack)", "is_item(node)", "GWF(node[0].model.tracegraph)", "RGWF(node[0].model.refgraph)", "self.is_executing",
                  "node[0].system.executor is self", "node[0].model.tracegraph is not node[0].model.refgraph",
                  "self.callstack.executor is self"],
        ensures=[
            "WF:: WF(self.callstack)",
            "STACK:: unchanged(self.callstack, self.callstack.idxstack) and self.callstack.counter == old(self.callstack.counter)",
            "DEPTH:: old(len(self.callstack)) <= self.callstack.maxdepth",
            "RUNS:: self.ghost_runs > old(self.ghost_runs)",
            "STORED:: implies(node[0].is_cached, node[1] in node[0].data and node[0].data[node[1]] == result)",
            # C08 (G1/G2): a completed cached element is in the graph, linked to its nearest cached caller
            "RECORDED:: implies(node[0].is_cached, has_node(node[0].model.tracegraph, node))"
            " and implies(has_caller(self.callstack), has_edge(node[0].model.tracegraph, node if node[0].is_cached else objnode(node[0]), caller(self.callstack)))",
            "NO-PENDING:: all(self.refstack[j][0] < self.callstack.counter for j in range(len(self.refstack)))",
            "GWF:: GWF(node[0].model.tracegraph)", "RGWF:: RGWF(node[0].model.refgraph)",
        ] + MONO,
        raises={
            # C05: append refused: nothing was pushed, only the caller's frame will unwind
            "DeepReferenceError": [
                "LIMIT:: old(len(self.callstack)) > self.callstack.maxdepth",
                "WF:: WF(self.callstack)",
                "STACK:: unchanged(self.callstack, self.callstack.idxstack) and self.callstack.counter == old(self.callstack.counter)",
                "UNCHANGED:: unchanged(self.refstack, self.rolledback, node[0].model.tracegraph, node[0].model.refgraph) and self.ghost_runs == old(self.ghost_runs)",
            ] + MONO,
            # C05/C17: any exception of the formula: frame unwound, node out of the graph, same exception re-raised
            "*": [
                "WF:: WF(self.callstack)",
                "STACK:: unchanged(self.callstack, self.callstack.idxstack) and self.callstack.counter == old(self.callstack.counter)",
                "NOT-IN-GRAPH:: not has_node(node[0].model.tracegraph, node)",
                "RUNS:: self.ghost_runs > old(self.ghost_runs)",
                "CHAIN:: len(self.rolledback) > 0 and self.rolledback[-1] == (self.callstack.counter, raised, node)",
                "NO-PENDING:: all(self.refstack[j][0] < self.callstack.counter for j in range(len(self.refstack)))",
                "GWF:: GWF(node[0].model.tracegraph)", "RGWF:: RGWF(node[0].model.refgraph)",
            ] + MONO},
        modifies=["every_content('dict[key,val]')", "every_content('set[key]')", "every_content('graph')",
                  "every_content('graph[rnode]')", "content(self.refstack)", "content(self.rolledback)", "self.ghost_runs",
                  "content(self.callstack)", "content(self.callstack.idxstack)", "self.callstack.counter"],
        alloc=True)

    P.setdefault("_system", {})["executor"] = ["NonThreadedExecutor._eval_formula"]


def register_executor2(R, P):
    MONO = ["DATA-MONO:: all(implies(old(k in c.data), k in c.data and c.data[k] == old(c.data[k])) for c in every('NodeObj') for k in every('key'))",
            "INPUTS:: all(unchanged(c.input_keys) for c in every('CellsImpl'))",
            "GWF:: GWF(node[0].model.tracegraph)", "RGWF:: RGWF(node[0].model.refgraph)"]
    # W5 — nothing is executing outside a top-level call
    R.macro("IDLE", ["ex"], "len(ex.callstack) == 0 and len(ex.refstack) == 0")
    EXREQ = ["WF(self.callstack)", "is_item(node)", "GWF(node[0].model.tracegraph)", "RGWF(node[0].model.refgraph)", "node[0].system.executor is self",
             "node[0].model.tracegraph is not node[0].model.refgraph", "self.callstack.executor is self",
             "implies(not self.is_executing, IDLE(self))"]
    ANYEXC = [
        "WF:: WF(self.callstack)",
        "STACK:: unchanged(self.callstack, self.callstack.idxstack) and self.callstack.counter == old(self.callstack.counter)",
        "EXECUTING:: self.is_executing == old(self.is_executing)",
        "IDLE:: implies(not self.is_executing, IDLE(self))",
        "NOT-IN-GRAPH:: implies(old(not (node[0].is_cached and node[1] in node[0].data)), not has_node(node[0].model.tracegraph, node))",
    ]
    ANYEXC = MONO + ANYEXC
    R.contract(F + "::NonThreadedExecutor._start_exec",
        params={"self": "Executor", "node": "node"}, returns="val",
        requires=EXREQ + ["not self.is_executing"],
        ensures=[
            "WF:: WF(self.callstack)", "IDLE:: IDLE(self) and not self.is_executing",
            "RUNS:: self.ghost_runs > old(self.ghost_runs)",
            # the value returned is the buffer of THIS run
            "STORED:: implies(node[0].is_cached and self.excinfo[0] is null, node[1] in node[0].data and node[0].data[node[1]] == result)",
            "CLEAN:: implies(self.excinfo[0] is null, self.errorstack is null)",
        ] + MONO,
        raises={
            "FormulaError": ["WF:: WF(self.callstack)", "IDLE:: IDLE(self) and not self.is_executing",
                             "CARRIES-ORIGINAL:: self.excinfo[1] is not null and self.errorstack is not null",
                             "USED:: self.is_formula_error_used",
                             "NOT-IN-GRAPH:: not has_node(node[0].model.tracegraph, node)"] + MONO,
            "*": ["WF:: WF(self.callstack)", "IDLE:: IDLE(self) and not self.is_executing",
                  "ORIGINAL:: raised is self.excinfo[1] and not self.is_formula_error_used",
                  "NOT-IN-GRAPH:: not has_node(node[0].model.tracegraph, node)"] + MONO,
        },
        modifies=["every_content('dict[key,val]')", "every_content('set[key]')", "every_content('graph')",
                  "every_content('graph[rnode]')", "content(self.refstack)", "content(self.rolledback)", "self.ghost_runs",
                  "content(self.callstack)", "content(self.callstack.idxstack)", "self.callstack.counter",
                  "self.excinfo", "self.errorstack", "self.is_executing", "self.buffer"],
        alloc=True)

    R.contract(F + "::NonThreadedExecutor.eval_node",
        params={"self": "Executor", "node": "node"}, returns="val",
        requires=EXREQ,
        ensures=[
            "WF:: WF(self.callstack)",
            "STACK:: unchanged(self.callstack, self.callstack.idxstack) and self.callstack.counter == old(self.callstack.counter)",
            "EXECUTING:: self.is_executing == old(self.is_executing)",
            "IDLE:: implies(not self.is_executing, IDLE(self))",
            # C01: a held value is returned as is, nothing runs, the cache is untouched
            "HIT-VALUE:: implies(old(node[0].is_cached and node[1] in node[0].data), result == old(node[0].data[node[1]]))",
            "HIT-NO-RUN:: implies(old(node[0].is_cached and node[1] in node[0].data), self.ghost_runs == old(self.ghost_runs))",
            "HIT-CACHE-KEPT:: implies(old(node[0].is_cached and node[1] in node[0].data),"
            " all(unchanged(c.data) for c in every('NodeObj')))",
            # C08: a hit inside a formula records exactly the edge element -> nearest cached caller
            "HIT-EDGE:: implies(old(node[0].is_cached and node[1] in node[0].data),"
            " all(has_edge(node[0].model.tracegraph, a, b) == (old(has_edge(node[0].model.tracegraph, a, b))"
            " or (has_caller(self.callstack) and a == node and b == caller(self.callstack)))"
            " for a in every('node') for b in every('node')))",
            # C01: a miss runs the formula (at least) once and the stored value is what is returned
            "MISS-RUNS:: implies(old(not (node[0].is_cached and node[1] in node[0].data)), self.ghost_runs > old(self.ghost_runs))",
            # (with handle_formula_error(True) a failed top-level call prints the error and returns None: excluded)
            "MISS-STORED:: implies(old(not (node[0].is_cached and node[1] in node[0].data)) and node[0].is_cached"
            " and (old(self.is_executing) or self.excinfo[0] is null),"
            " node[1] in node[0].data and node[0].data[node[1]] == result)",
        ] + MONO,
        raises={"FormulaError": ANYEXC, "DeepReferenceError": ANYEXC[:-1], "*": ANYEXC},
        modifies=["every_content('dict[key,val]')", "every_content('set[key]')", "every_content('graph')",
                  "every_content('graph[rnode]')", "content(self.refstack)", "content(self.rolledback)", "self.ghost_runs",
                  "content(self.callstack)", "content(self.callstack.idxstack)", "self.callstack.counter",
                  "self.excinfo", "self.errorstack", "self.is_executing", "self.buffer"],
        alloc=True)
    P["_system"]["executor"] += ["NonThreadedExecutor._start_exec", "NonThreadedExecutor.eval_node"]
