"""Contracts for the model registry (C19): System.new_model / rename_model / _rename_samename / close_model,
ModelImpl.rename, AutoNamer.get_next."""
import z3
from pyvc.ty import *

S = "modelx/core/system.py"


def register(R, P):
    R.cls("AutoNamer", fields={"__basename": "str", "__last_postfix": "int"})
    if "ReferenceManager" not in R.classes: R.cls("ReferenceManager")
    R.classes["System"].fields.update({"models": "dict[str,ModelImpl]", "currentmodel": "ModelImpl",
                                       "_backupnamer": "AutoNamer", "_modelnamer": "AutoNamer"})
    R.classes["ModelImpl"].fields.update({"name": "str", "refmgr": "ReferenceManager"})

    @R.specfun("valid")
    def valid(ev, s):
        """util.is_valid_name as an uninterpreted predicate on strings (identifier, not keyword, no leading underscore);
        the only facts used: None and the empty string are not valid"""
        f = z3.Function("is_valid_name", Str, B)
        E = ev.eng
        if not getattr(E, "_valid_ax", False):
            E._valid_ax = True
            x = z3.Const("vx", Str)
            tr = z3.Function("str_truthy", Str, B)
            E.axioms.append(z3.Not(f(SNONE)))
            E.axioms.append(z3.ForAll([x], z3.Implies(f(x), z3.And(tr(x), x != SNONE))))
        return SV(f(s.v), BOOL)

    # REG: every registered name is the current name of the model registered under it (hence names are unique per model)
    R.macro("REG", ["s"], "all(implies(k in s.models, s.models[k] is not null and s.models[k].name == k and valid(k) and s.models[k].system is s) for k in every('str'))"
                          " and (s.currentmodel is null or (s.currentmodel.name in s.models and s.models[s.currentmodel.name] is s.currentmodel))")
    R.macro("registered", ["s", "m"], "m.name in s.models and s.models[m.name] is m")
    # nothing dropped or overwritten: every model registered before is still registered (under its current name)
    R.macro("NOTHING_DROPPED", ["s"], "all(implies(old(k in s.models), registered(s, old(s.models[k]))) for k in every('str'))")

    R.contract("modelx/core/util.py::is_valid_name", trusted=True, pure=True,
        note="regex/str.isidentifier/keyword test: uninterpreted predicate valid(); exercised by the bounded drivers of C11/C19",
        params={"word": "str"}, returns="bool", ensures=["result == valid(word)"])

    R.contract("modelx/core/util.py::AutoNamer.get_next",
        params={"self": "AutoNamer", "existing_names": "setv[str]", "prefix": "str"}, returns="str",
        ensures=["FREE:: result not in existing_names", "NOT-NONE:: result is not None"],
        note="termination assumed for finite name sets (the postfix strictly increases)",
        modifies=["self.__last_postfix"], alloc=True)

    R.contract("extern::ModelImpl.__init__", trusted=True,
        note="constructor of ModelImpl (name handling read from model.py:867-872; the rest of the construction is glue, bounded only)",
        params={"self": "ModelImpl", "system": "System", "name": "str"},
        ensures=["NAME:: self.name == name if (name is not None and valid(name)) else (self.name not in system.models and valid(self.name))",
                 "SYSTEM:: self.system is system", "FRESH:: fresh(self)",
                 "REGISTRY-UNTOUCHED:: unchanged(system.models) and all(m.name == old(m.name) for m in every('ModelImpl') if m is not self)"],
        raises={"ValueError": ["INVALID:: name is not None and not valid(name)",
                               "UNTOUCHED:: unchanged(system.models) and all(m.name == old(m.name) for m in every('ModelImpl'))"]},
        modifies=["self.name", "self.system", "system._modelnamer.__last_postfix"], alloc=True)
    R.contracts["ModelImpl.__init__"] = R.contracts.pop("ModelImpl.__init__")

    R.contract("modelx/core/model.py::ModelImpl.rename",
        params={"self": "ModelImpl", "name": "str"}, returns="bool",
        ensures=["TAKEN:: result == (old(name not in self.system.models))",
                 "RENAMED:: self.name == (name if result else old(self.name))", "VALID:: valid(name)"],
        raises={"ValueError": ["INVALID:: not valid(name)", "UNCHANGED:: self.name == old(self.name)"]},
        modifies=["self.name"])

    R.contract("extern::ReferenceManager.del_all_spec", trusted=True,
        note="IOSpec bookkeeping (C18); does not touch the registry",
        params={"self": "ReferenceManager"}, modifies=[])

    MODS = ["content(self.models)", "every(ModelImpl.name)", "self._backupnamer.__last_postfix"]
    R.contract(S + "::System.rename_model",
        params={"self": "System", "new_name": "str", "old_name": "str", "rename_old": "bool"}, returns="bool",
        requires=["REG(self)", "old_name in self.models"],
        ensures=[
            "REG:: REG(self)", "NOTHING-DROPPED:: NOTHING_DROPPED(self)",
            "SAME-NAME:: implies(new_name == old_name, not result and unchanged(self.models))",
            "DONE:: implies(result, new_name in self.models and self.models[new_name] is old(self.models[old_name]) and old_name not in self.models)",
            # refused (name taken and rename_old not requested): nothing changes
            "REFUSED:: implies(not result, unchanged(self.models) and all(m.name == old(m.name) for m in every('ModelImpl')))",
            "REFUSED-IFF:: implies(new_name != old_name and not rename_old, result == old(new_name not in self.models))",
            "ONLY-THESE:: all(implies(k in self.models and k != new_name, old(k in self.models) and self.models[k] is old(self.models[k]) or (rename_old and self.models[k] is old(self.models[new_name]))) for k in every('str'))",
        ],
        raises={"ValueError": ["INVALID:: not valid(new_name) or (rename_old and old(new_name in self.models))", "REG:: REG(self)", "NOTHING-DROPPED:: NOTHING_DROPPED(self)",
                               "UNCHANGED-IF-FREE:: implies(old(new_name not in self.models), unchanged(self.models) and all(m.name == old(m.name) for m in every('ModelImpl')))"]},
        modifies=MODS, alloc=True)

    R.contract(S + "::System._rename_samename",
        params={"self": "System", "name": "str"},
        requires=["REG(self)", "name in self.models"],
        ensures=["REG:: REG(self)", "NOTHING-DROPPED:: NOTHING_DROPPED(self)",
                 "FREED:: name not in self.models",
                 "MOVED:: registered(self, old(self.models[name])) and old(self.models[name]).name != name",
                 "OTHERS:: all(implies(old(k in self.models) and k != name, k in self.models and self.models[k] is old(self.models[k])) for k in every('str'))",
                 "ONLY-BACKUP:: all(implies(k in self.models and not old(k in self.models), self.models[k] is old(self.models[name])) for k in every('str'))"],
        raises={"ValueError": ["REG:: REG(self)", "UNCHANGED:: unchanged(self.models) and all(m.name == old(m.name) for m in every('ModelImpl'))"]},
        modifies=MODS, alloc=True)

    R.contract(S + "::System.new_model",
        params={"self": "System", "name": "str"}, returns="ModelImpl", nullable=("name",),
        requires=["REG(self)"],
        ensures=[
            "REG:: REG(self)",
            # C19: creating a model under a name in use never drops or overwrites the existing model
            "NOTHING-DROPPED:: NOTHING_DROPPED(self)",
            "NEW:: fresh(result) and registered(self, result) and self.currentmodel is result",
            "NAMED:: implies(name is not None and valid(name), result.name == name)",
            "ONLY-NEW:: all(implies(k in self.models and self.models[k] is not result, any(old(k2 in self.models) and old(self.models[k2]) is self.models[k] for k2 in every('str'))) for k in every('str'))",
        ],
        raises={"ValueError": ["REG:: REG(self)", "NOTHING-DROPPED:: NOTHING_DROPPED(self)"]},
        modifies=MODS + ["self.currentmodel", "every(ModelImpl.system)", "self._modelnamer.__last_postfix"], alloc=True)

    R.contract(S + "::System.close_model",
        params={"self": "System", "model": "ModelImpl"},
        requires=["REG(self)", "registered(self, model)"],
        ensures=[
            # C19: closing removes exactly that model
            "EXACT:: all((k in self.models) == (old(k in self.models) and k != model.name) for k in every('str'))",
            "OTHERS:: all(implies(k in self.models, self.models[k] is old(self.models[k])) for k in every('str'))",
            "CURRENT:: self.currentmodel is (null if old(self.currentmodel) is model else old(self.currentmodel))",
            "REG:: REG(self)",
        ],
        modifies=["content(self.models)", "self.currentmodel"])
    P["_registry"] = ["AutoNamer.get_next", "ModelImpl.rename", "System.rename_model", "System._rename_samename",
                      "System.new_model", "System.close_model"]
