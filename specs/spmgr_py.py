"""Contracts for SpaceManager member-edit propagation (modelx/core/model.py) — C03 (derived members follow the first
defining base), C11 (validate before mutate), C09/C02 (every affected cells is cleared)."""
import z3
from pyvc.ty import *

M = "modelx/core/model.py"


def register(R, P):
    R.consts["UserCellsImpl.PROP_FORMULA"] = 1
    R.consts["UserCellsImpl.PROP_CACHE"] = 2
    R.cls("UserSpaceT", bases=("ParentImpl",), fields={"cells": "dict[str,UserCellsImpl]"},
          doc="a user space seen through its cells mapping (property, modelled as a field)")
    R.classes["UserCellsImpl"].fields.update({"parent": "UserSpaceT", "ghost_propset": "int", "ghost_propset_define": "bool"})
    R.cls("SpaceManagerT", bases=("SharedSpaceOperations",))

    R.contract("extern::Formula.__init__", trusted=True,
        note="Formula construction validates the source text (ast.parse / asttokens): may raise; no effect on the model",
        params={"self": "Formula", "func": "object", "name": "str"}, ensures=[], raises={"*": []}, modifies=[], alloc=True)
    R.contracts["Formula.__init__"] = R.contracts.pop("Formula.__init__")

    @R.specfun("first_defined_base")
    def first_defined_base(ev, ops, c):
        """get_deriv_bases(c, defined_only=True)[0]: the cells of the first space in c's space's linearisation (after itself) that
        DEFINES the name: uninterpreted function of (inheritance graph, c) (get_mro/C3 is bounded against CPython's C3, C03)"""
        g = ev.eng.get_field(ev.st, ops, "_graph")
        return SV(z3.Function("first_defined_base", Ref, Ref, Ref)(g.v, c.v), RefT("UserCellsImpl"))

    R.contract("extern::SharedSpaceOperations.get_deriv_bases", trusted=True, pure=True,
        params={"self": "SharedSpaceOperations", "deriv": "UserCellsImpl", "defined_only": "bool"}, returns="seq[UserCellsImpl]",
        static={"defined_only": True},
        ensures=["implies(not deriv.ghost_defined, len(result) >= 1 and result[0] is first_defined_base(self, deriv))"])
    R.contracts["SharedSpaceOperations.get_deriv_bases"] = R.contracts.pop("SharedSpaceOperations.get_deriv_bases")

    # _get_subs(space, skip_self=False): the space itself first, then its sub spaces (topological order)
    R.contract("extern::SharedSpaceOperations._get_subs", variant="withself", trusted=True,
        params={"self": "SharedSpaceOperations", "space": "ParentImpl", "skip_self": "bool"}, returns="list[UserSpaceT]",
        static={"skip_self": False},
        ensures=["len(result) >= 1 and result[0] is space",
                 "all(implies(1 <= j and j < len(result), result[j] in subs(self, space) and result[j] is not space) for j in every('int'))",
                 "all(implies(x in subs(self, space), any(result[j] is x for j in range(1, len(result)))) for x in every('ParentImpl'))",
                 "all(implies(0 <= a and a < b and b < len(result), result[a] is not result[b]) for a in every('int') for b in every('int'))",
                 "fresh(result)"],
        modifies=[], alloc=True)

    R.contract("extern::UserSpaceT.clear_subs_rootitems", trusted=True,
        note="discards the ItemSpaces built on this space (C07): bounded; effect on what this proof reads: none (flags, formulas, "
             "ghost counters of user cells and the cells mappings are untouched)",
        params={"self": "UserSpaceT"}, ensures=[], modifies=[], alloc=True)
    R.contracts["UserSpaceT.clear_subs_rootitems"] = R.contracts.pop("UserSpaceT.clear_subs_rootitems")

    # interface of on_set_property used here: a ghost counter records that (and how) it was applied; its real effects
    # (NO-OBJ, FLAG, ...) are proved on UserCellsImpl.on_set_property itself (space_py.py)
    R.contract("extern::UserCellsImpl.on_set_property", variant="ghost", trusted=True,
        note="call-site view of UserCellsImpl.on_set_property (proved separately): applied exactly once with these arguments",
        params={"self": "UserCellsImpl", "flags": "int", "define": "bool", "func": "object", "enable_cache": "bool"},
        ensures=["self.ghost_propset == old(self.ghost_propset) + 1", "self.ghost_propset_define == define",
                 "implies(bitand_nz(flags, 2), self.is_cached == enable_cache)", "implies(not bitand_nz(flags, 2), self.is_cached == old(self.is_cached))"],
        raises={"*": ["self.ghost_propset == old(self.ghost_propset) + 1"]},
        modifies=["self.ghost_propset", "self.ghost_propset_define", "self.is_cached"], alloc=True)

    R.contract("extern::UserCellsImpl.is_defined", trusted=True, pure=True, params={"self": "UserCellsImpl"}, returns="bool",
               ensures=["result == self.ghost_defined"])
    R.contracts["UserCellsImpl.is_defined"] = R.contracts.pop("UserCellsImpl.is_defined")
    NAME = "cells.name"
    FOLLOWS = "(c is cells or (not c.ghost_defined and first_defined_base(self, c) is cells))"
    R.contract(M + "::SpaceManager.set_cells_property",
        params={"self": "SpaceManagerT", "cells": "UserCellsImpl", "flags": "int", "func": "object", "enable_cache": "bool"},
        requires=["cells.name in cells.parent.cells and cells.parent.cells[cells.name] is cells",
                  # every sub space holds a cells of that name (INH: derived or overriding) and they are distinct objects
                  "all(implies(s in subs(self, cells.parent), cells.name in s.cells and s.cells[cells.name] is not null) for s in every('UserSpaceT'))",
                  "all(implies((s is cells.parent or s in subs(self, cells.parent)) and (t is cells.parent or t in subs(self, cells.parent)) and s is not t,"
                  " s.cells[cells.name] is not t.cells[cells.name]) for s in every('UserSpaceT') for t in every('UserSpaceT'))",
                  "cells.parent not in subs(self, cells.parent)"],
        ensures=[
            # C03: the edit reaches the edited cells and exactly the cells DERIVED from it (first defined base is the edited cells);
            # overriding definitions and cells derived from another base are left alone
            "APPLIED:: all(implies((s is cells.parent or s in subs(self, cells.parent)) and %s, c.ghost_propset == old(c.ghost_propset) + 1)"
            " for s in every('UserSpaceT') for c in every('UserCellsImpl') if c is s.cells[cells.name])" % FOLLOWS,
            "OTHERS-UNTOUCHED:: all(implies(not any((s is cells.parent or s in subs(self, cells.parent)) and c is s.cells[cells.name] and %s for s in every('UserSpaceT')),"
            " c.ghost_propset == old(c.ghost_propset) and c.is_cached == old(c.is_cached)) for c in every('UserCellsImpl'))" % FOLLOWS,
            # only the edited cells itself becomes defined
            "DEFINE-ONLY-SELF:: cells.ghost_propset_define and all(implies(s in subs(self, cells.parent) and c is s.cells[cells.name] and c is not cells and %s, not c.ghost_propset_define)"
            " for s in every('UserSpaceT') for c in every('UserCellsImpl'))" % FOLLOWS,
        ],
        raises={"*": [
            # C11: a malformed formula is rejected before anything is touched
            "VALIDATED-FIRST-OR-APPLYING:: bitand_nz(flags, 1) or any(c.ghost_propset != old(c.ghost_propset) for c in every('UserCellsImpl'))",
            "REJECTED-UNTOUCHED:: implies(all(c.ghost_propset == old(c.ghost_propset) for c in every('UserCellsImpl')), all(c.is_cached == old(c.is_cached) for c in every('UserCellsImpl')))",
        ]},
        views={"UserCellsImpl.on_set_property": "UserCellsImpl.on_set_property@ghost"},
        loops={0: {"inv": [
            "implies(_i == 0, define) and implies(_i > 0, not define)",
            "all(implies(j < _i and %s, c.ghost_propset == old(c.ghost_propset) + 1 and c.ghost_propset_define == (j == 0))"
            " for j in range(len(_s)) for c in every('UserCellsImpl') if c is _s[j].cells[cells.name])" % FOLLOWS,
            "all(implies(not any(j < _i and c is _s[j].cells[cells.name] and %s for j in range(len(_s))),"
            " c.ghost_propset == old(c.ghost_propset) and c.is_cached == old(c.is_cached)) for c in every('UserCellsImpl'))" % FOLLOWS,
            "unchanged(cells.parent.cells) and all(unchanged(s.cells) for s in every('UserSpaceT')) and cells.name == old(cells.name)",
            "all(c.ghost_defined == old(c.ghost_defined) for c in every('UserCellsImpl'))",
        ], "modifies": ["every(UserCellsImpl.ghost_propset)", "every(UserCellsImpl.ghost_propset_define)", "every(NodeObj.is_cached)"]}},
        modifies=["every(UserCellsImpl.ghost_propset)", "every(UserCellsImpl.ghost_propset_define)", "every(NodeObj.is_cached)"],
        alloc=True)
    P["_spmgr"] = ["SpaceManager.set_cells_property"]


def register2(R, P):
    # ---- SpaceUpdater._execute_or_restore (C11, fix #9): a failed re-derivation is undone FROM THE COMMITTED GRAPH -------------
    R.cls("InstructionList")
    R.classes["SharedSpaceOperations"].fields.update({"ghost_rederived": "int"})
    R.cls("SpaceUpdaterT", bases=("SharedSpaceOperations",), fields={"manager": "SpaceManagerT", "_instructions": "InstructionList"})
    R.contract("extern::InstructionList.execute", trusted=True,
        note="runs the queued re-derivation instructions (UserSpaceImpl.on_inherit per space): may raise at any point; does not call update_subs",
        params={"self": "InstructionList"}, ensures=[], raises={"*": []},
        modifies=[], alloc=True)
    R.contract("extern::SpaceGraph.to_space", trusted=True, pure=True,
        params={"self": "SpaceGraph", "node": "str"}, returns="UserSpaceT", ensures=["result is space_of(self, node)"])
    R.contract("extern::SharedSpaceOperations.update_subs", trusted=True,
        note="derive-from-scratch of the space and all its subs along THIS object's graph (self._graph); bounded (C03 driver)",
        params={"self": "SharedSpaceOperations", "space": "UserSpaceT", "skip_self": "bool"},
        ensures=["self.ghost_rederived == old(self.ghost_rederived) + 1"],
        raises={"*": ["self.ghost_rederived == old(self.ghost_rederived) + 1"]},      # (the ghost counts attempts on this object)
        modifies=["self.ghost_rederived"], alloc=True)
    for q in ("InstructionList.execute", "SpaceGraph.to_space", "SharedSpaceOperations.update_subs"):
        R.contracts[q] = R.contracts.pop(q)

    @R.specfun("space_of")
    def space_of(ev, g, node):
        return SV(z3.Function("space_of_node", Ref, Str, Ref)(g.v, node.v), RefT("UserSpaceT"))

    R.contract(M + "::SpaceUpdater._execute_or_restore",
        params={"self": "SpaceUpdaterT", "node": "str"},
        requires=["self.manager is not self"],
        ensures=["NO-RESTORE-NEEDED:: self.manager.ghost_rederived == old(self.manager.ghost_rederived) and self.ghost_rederived == old(self.ghost_rederived)"],
        raises={"*": [
            # C11: when derivation fails half-way, the derived members are derived again along the graph BEFORE the change --
            # the manager's committed graph, never the updater's working copy (which still holds the rejected edges)
            "RESTORED-FROM-COMMITTED-GRAPH:: self.manager.ghost_rederived == old(self.manager.ghost_rederived) + 1",
            "WORKING-COPY-NOT-USED:: self.ghost_rederived == old(self.ghost_rederived)",
        ]},
        modifies=["self.manager.ghost_rederived", "self.ghost_rederived"], alloc=True)
    P["_spmgr"] += ["SpaceUpdater._execute_or_restore"]


def register3(R, P):
    # ---- SpaceGraph.max_index (C03): bases are ordered by the `index` attribute of their edges; a new base edge gets
    #      max_index + 1, i.e. comes AFTER every existing base whatever was removed before --------------------------------
    R.classes["SpaceGraph"].content = "graph[str]"

    @R.specfun("eindex")
    def eindex(ev, g, a, b):
        E = ev.eng
        ct = E.content_type(g)
        return SV(E.eidx_of(ev.st, g.v, ct)[a.v][b.v], INT)

    R.contract(M + "::SpaceGraph.max_index",
        params={"self": "SpaceGraph", "node": "str"}, returns="int",
        requires=["has_node(self, node)", "all(implies(has_edge(self, a, node), eindex(self, a, node) >= 1) for a in every('str'))"],
        ensures=[
            "UPPER-BOUND:: all(implies(has_edge(self, a, node), eindex(self, a, node) <= result) for a in every('str'))",
            "ATTAINED:: implies(any(has_edge(self, a, node) for a in every('str')), any(has_edge(self, a, node) and eindex(self, a, node) == result for a in every('str')))",
            "NO-BASE:: implies(not any(has_edge(self, a, node) for a in every('str')), result == 0)",
        ],
        modifies=[], alloc=True)
    P["_spmgr"] += ["SpaceGraph.max_index"]
