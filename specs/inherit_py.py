"""Contract for UserSpaceImpl.on_inherit (modelx/core/space.py) — the heart of C03: after re-deriving the members of a
space from its linearised bases, the space holds exactly its own defined members plus one derived copy per name that some
base holds, each derived copy taken from the FIRST base (in the given linearisation order) that DEFINES the name; derived
members no base provides any more are deleted; defined members are untouched.

The function is verified once per value of its `attr` argument (variants @cells and @own_refs).
Callees are used through call-site views (trusted here, the real functions are under their own contracts or bounded):
UserCellsImpl.__init__ (derived placeholder), UserCellsImpl.on_inherit, UserSpaceImpl.on_del_cells.
The member ORDER inside the mapping (the remove-and-add-back reordering) is not specified."""

S = "modelx/core/space.py"
C = "modelx/core/cells.py"


def register(R, P):
    R.classes["UserSpaceT"].fields.update({"own_refs": "dict[str,ReferenceImpl]", "model": "ModelImpl", "_own_refs": "RefContainer"})
    R.classes["UserCellsImpl"].fields.update({"ghost_src": "UserCellsImpl", "ghost_deleted": "bool", "ghost_inherits": "int"})

    # ---- vocabulary (over the `bases` list of spaces, in linearisation order)
    R.macro("inb", ["bases", "name"], "any(name in bases[j].cells for j in range(len(bases)))")
    R.macro("bdef", ["bases", "j", "name"], "(name in bases[j].cells and bases[j].cells[name].ghost_defined)")
    R.macro("firstdef", ["bases", "j", "name"],
            "(0 <= j and j < len(bases) and bdef(bases, j, name) and all(implies(i < j, not bdef(bases, i, name)) for i in range(len(bases))))")
    R.macro("copied", ["c", "b"], "(c.formula == b.formula and c.allow_none == b.allow_none and c.is_cached == b.is_cached)")
    R.macro("derived_ok", ["self", "bases", "name"],
            "(name in self.cells and not self.cells[name].ghost_defined and self.cells[name].parent is self"
            " and any(firstdef(bases, j, name) and copied(self.cells[name], bases[j].cells[name]) for j in every('int')))")

    R.macro("owned", ["s", "k"], "(s.cells[k] is not null and s.cells[k].parent is s and s.cells[k].name == k)")
    # ---- call-site views of the callees (trusted)
    R.cls("UserSpaceImpl", bases=("UserSpaceT",))
    R.contract("extern::UserCellsImpl.__init__", trusted=True,
        note="CellsImpl.__init__ with formula=None, is_derived=True, add_to_space=True: a fresh derived placeholder registered under "
             "`name` in space.cells; nothing else in the model changes (constructor body: bounded drivers)",
        params={"self": "UserCellsImpl", "space": "UserSpaceT", "name": "str", "formula": "object", "is_derived": "bool"},
        static={"is_derived": True}, nullable=["formula"],
        ensures=["not self.ghost_defined", "self.parent is space", "not self.ghost_deleted", "self.name == name",
                 "name in space.cells and space.cells[name] is self",
                 "all(implies(k != name, (k in space.cells) == old(k in space.cells) and space.cells[k] is old(space.cells[k])) for k in every('str'))"],
        modifies=["content(space.cells)", "self.ghost_defined", "self.parent", "self.formula", "self.allow_none", "self.is_cached",
                  "self.ghost_deleted", "self.ghost_src", "self.ghost_inherits", "self.name"], alloc=True)

    G = "self.model.tracegraph"
    MPRE = ["GWF(%s)" % G, "RGWF(self.model.refgraph)", "HELD(%s)" % G, "OWN(self.model)", "SEP()",
            "all(c.data is not d.input_keys for c in every('CellsImpl') for d in every('CellsImpl'))"]
    MMOD = ["content(%s)" % G, "content(self.model.refgraph)", "every_content('dict[key,val]')", "every_content('set[key]')"]
    R.classes["CellsBoundFunction"].bases = tuple(R.classes["CellsBoundFunction"].bases) + ("LazyEval",)
    R.contract(C + "::CellsImpl.on_inherit",
        params={"self": "UserCellsImpl", "updater": "Updater", "bases": "list[UserCellsImpl]"},
        requires=MPRE + ["len(bases) >= 1", "all(s.observers is not null for s in every('LazyEval'))", "self.altfunc is not null"],
        ensures=[
            # C03: the derived cells takes over formula, allow_none and the cached flag of the first defining base member
            "COPY-FROM-FIRST:: copied(self, bases[0])",
            # C02: nothing computed by (or from) the old formula survives, and the bound function is re-made before its next use
            "NO-OBJ:: all(not (has_node(%s, n) and obj(n) is self) for n in every('node'))" % G,
            "CLOSED:: all(implies(old(has_edge(%s, a, b)) and old(has_node(%s, a)) and not has_node(%s, a), not has_node(%s, b)) for a in every('node') for b in every('node'))" % (G, G, G, G),
            "STALE-BOUND-FUNCTION:: not self.altfunc.is_fresh",
            "HELD:: HELD(%s)" % G, "GWF:: GWF(%s)" % G,
        ],
        modifies=MMOD + ["self.formula", "self.allow_none", "self.is_cached", "every(LazyEval.is_fresh)"], alloc=True)

    R.contract(S + "::UserSpaceImpl.on_del_cells",
        params={"self": "UserSpaceImpl", "name": "str"},
        requires=MPRE + ["name in self.cells", "self.cells[name] is not null", "self.cells[name].model is self.model"],
        ensures=[
            "REMOVED:: name not in self.cells and old(self.cells[name]).ghost_deleted",
            "OTHERS-KEPT:: all(implies(k != name, (k in self.cells) == old(k in self.cells) and self.cells[k] is old(self.cells[k])) for k in every('str'))",
            # C13: no element of the deleted cells (nor anything computed from one) stays in the dependency graph
            "NO-OBJ:: all(not (has_node(%s, n) and obj(n) is old(self.cells[name])) for n in every('node'))" % G,
            "CLOSED:: all(implies(old(has_edge(%s, a, b)) and old(has_node(%s, a)) and not has_node(%s, a), not has_node(%s, b)) for a in every('node') for b in every('node'))" % (G, G, G, G),
            "HELD:: HELD(%s)" % G, "GWF:: GWF(%s)" % G,
        ],
        modifies=MMOD + ["content(self.cells)", "old(self.cells[name]).ghost_deleted"], alloc=True)

    WIDE = ["every_content('graph')", "every_content('graph[rnode]')", "every_content('dict[key,val]')", "every_content('set[key]')", "every(LazyEval.is_fresh)"]
    R.contract("extern::CellsImpl.on_inherit", variant="view", trusted=True,
        note="call-site view of UserCellsImpl.on_inherit (its own contract: COPY-FROM-FIRST, below): the formula, allow_none and "
             "cached flag of bases[0] are taken over; its effects on the dependency graph / held values are not read by this proof",
        params={"self": "UserCellsImpl", "updater": "Updater", "bases": "list[UserCellsImpl]"},
        requires=["len(bases) >= 1"],
        ensures=["copied(self, bases[0])", "self.ghost_src is bases[0]", "self.ghost_inherits == old(self.ghost_inherits) + 1"],
        modifies=["self.formula", "self.allow_none", "self.is_cached", "self.ghost_src", "self.ghost_inherits"] + WIDE, alloc=True)

    R.contract("extern::UserSpaceImpl.on_del_cells", variant="view", trusted=True,
        note="call-site view of UserSpaceImpl.on_del_cells: the member is removed from the mapping and marked deleted "
             "(clearing of values computed from it: C13, on_delete contract + bounded driver)",
        params={"self": "UserSpaceImpl", "name": "str"},
        requires=["name in self.cells"],
        ensures=["name not in self.cells", "old(self.cells[name]).ghost_deleted",
                 "all(implies(k != name, (k in self.cells) == old(k in self.cells) and self.cells[k] is old(self.cells[k])) for k in every('str'))"],
        modifies=["content(self.cells)", "old(self.cells[name]).ghost_deleted"] + WIDE, alloc=True)

    OLDDEF = "(old(name in self.cells) and old(self.cells[name]).ghost_defined)"
    PRE = [
        # ownership: a cells object belongs to exactly one space and sits under its own name
        "OWNED:: all(implies(k in s.cells, owned(s, k)) for s in every('UserSpaceT') for k in every('str'))",
        "NOT-OWN-BASE:: all(bases[j] is not self and bases[j] is not null for j in range(len(bases)))",
        # every name a base holds is defined by some base (the bases are an ancestor-closed linearisation, already re-derived)
        "DEFINED-SOURCE:: all(implies(name in bases[j].cells, any(bdef(bases, i, name) for i in range(len(bases)))) for j in range(len(bases)) for name in every('str'))",
        "all(s.cells is not t.cells or s is t for s in every('UserSpaceT') for t in every('UserSpaceT'))",
    ]
    POST = [
        "LEMMA-INB-SAME:: all(inb(bases, name) == old(inb(bases, name)) for name in every('str'))",
        "KEYS:: all((name in self.cells) == (%s or inb(bases, name)) for name in every('str'))" % OLDDEF,
        "DEFINED-KEPT:: all(implies(%s, self.cells[name] is old(self.cells[name]) and copied(self.cells[name], old(self.cells[name]))"
        " and self.cells[name].ghost_inherits == old(self.cells[name].ghost_inherits)) for name in every('str'))" % OLDDEF,
        "DERIVED-FROM-FIRST-DEFINING-BASE:: all(implies(inb(bases, name) and not %s, derived_ok(self, bases, name)) for name in every('str'))" % OLDDEF,
        "DERIVED-REUSED:: all(implies(inb(bases, name) and old(name in self.cells), self.cells[name] is old(self.cells[name])) for name in every('str'))",
        "STALE-DERIVED-DELETED:: all(implies(old(name in self.cells) and not old(self.cells[name]).ghost_defined and not inb(bases, name),"
        " name not in self.cells and old(self.cells[name]).ghost_deleted) for name in every('str'))",
        "ONLY-STALE-DERIVED-DELETED:: all(implies(old(allocated(c)) and c.ghost_deleted and not old(c.ghost_deleted), old(c.parent) is self and not c.ghost_defined"
        " and not inb(bases, c.name)) for c in every('UserCellsImpl'))",
        "BASES-UNTOUCHED:: all(implies(not fresh(c) and c.parent is not self and old(c.parent) is not self, copied(c, old(c)) and c.ghost_defined == old(c.ghost_defined)) for c in every('UserCellsImpl'))"
        " and all(unchanged(bases[j].cells) for j in range(len(bases)))",
    ]
    MOD = ["content(self.cells)", "every(UserCellsImpl.formula)", "every(UserCellsImpl.allow_none)", "every(UserCellsImpl.is_cached)",
           "every(UserCellsImpl.ghost_src)", "every(UserCellsImpl.ghost_inherits)", "every(UserCellsImpl.ghost_deleted)",
           "every(UserCellsImpl.ghost_defined)", "every(UserCellsImpl.parent)", "every(UserCellsImpl.name)"] + WIDE
    OLDDEFK = OLDDEF.replace("name", "k")
    COMMON = [
        # only derived members of self (and fresh placeholders) are written
        "FIELDS:: all(implies(c.ghost_defined or c.parent is not self, copied(c, old(c)) and c.ghost_inherits == old(c.ghost_inherits)) for c in every('UserCellsImpl'))",
        "STABLE:: all(implies(not fresh(c), c.ghost_defined == old(c.ghost_defined) and c.parent is old(c.parent) and c.name == old(c.name)) for c in every('UserCellsImpl'))",
        "OWNED-SELF:: all(implies(k in self.cells, owned(self, k)) for k in every('str'))",
        "BASES-SAME:: all(unchanged(bases[j].cells) for j in range(len(bases)))",
    ]
    INV1 = COMMON + [
        "CHAINKEYS:: all((k in _it) == old(inb(bases, k)) for k in every('str'))",
        "DONE:: all(implies(k in _done, k in self.cells and implies(%s, self.cells[k] is old(self.cells[k])) and implies(old(k in self.cells), self.cells[k] is old(self.cells[k]))"
        " and implies(not %s, derived_ok(self, bases, k))) for k in every('str'))" % (OLDDEFK, OLDDEFK),
        "TODO:: all(implies(k not in _done, (k in self.cells) == old(k in self.cells) and implies(k in self.cells, self.cells[k] is old(self.cells[k]))) for k in every('str'))",
        "SELFKEYS:: all((k in selfkeys) == (old(k in self.cells) and k not in _done) for k in every('str'))",
        "SELFKEYS-IDX:: all(implies(0 <= j and j < len(selfkeys) and k == selfkeys[j], old(k in self.cells) and k not in _done) for j in every('int') for k in every('str'))",
        "SELFKEYS-DISTINCT:: all(implies(0 <= a and a < b and b < len(selfkeys), selfkeys[a] != selfkeys[b]) for a in every('int') for b in every('int'))",
        "NONE-DELETED:: all(c.ghost_deleted == old(c.ghost_deleted) or fresh(c) for c in every('UserCellsImpl'))",
    ]
    INV3 = COMMON + [
        "DELETED-ONLY-STALE:: all(implies(old(allocated(c)) and c.ghost_deleted and not old(c.ghost_deleted), old(c.parent) is self and not c.ghost_defined"
        " and not old(inb(bases, c.name))) for c in every('UserCellsImpl'))",
        "S-DISTINCT:: all(implies(0 <= a and a < b and b < len(_s), _s[a] != _s[b]) for a in every('int') for b in every('int'))",
        "S-MEANS:: all((k in _s) == (old(k in self.cells) and not old(inb(bases, k))) for k in every('str'))",
        "S-OLD:: all(implies(0 <= j and j < len(_s), old(_s[j] in self.cells) and not old(inb(bases, _s[j]))) for j in every('int'))",
        "INB-DONE:: all(implies(old(inb(bases, k)), k in self.cells and implies(old(k in self.cells), self.cells[k] is old(self.cells[k]))"
        " and implies(not %s, derived_ok(self, bases, k))) for k in every('str'))" % OLDDEFK,
        "NEW-ONLY-INB:: all(implies(not old(k in self.cells) and not old(inb(bases, k)), k not in self.cells) for k in every('str'))",
        "REST:: all(implies(_i <= j and j < len(_s), _s[j] in self.cells and self.cells[_s[j]] is old(self.cells[_s[j]])) for j in every('int'))",
        "SWEPT:: all(implies(0 <= j and j < _i, ite(old(self.cells[_s[j]]).ghost_defined, _s[j] in self.cells and self.cells[_s[j]] is old(self.cells[_s[j]]),"
        " _s[j] not in self.cells and old(self.cells[_s[j]]).ghost_deleted)) for j in every('int'))",
    ]
    R.contract(S + "::UserSpaceImpl.on_inherit", variant="cells",
        params={"self": "UserSpaceImpl", "updater": "Updater", "bases": "list[UserSpaceImpl]", "attr": "str"},
        static={"attr": "cells"},
        views={"CellsImpl.on_inherit": "CellsImpl.on_inherit@view", "UserSpaceImpl.on_del_cells": "UserSpaceImpl.on_del_cells@view"},
        locals={"selfkeys": "list[str]"}, field_types={"CustomChainMap.maps": "list[dict[str,UserCellsImpl]]"},
        requires=PRE, ensures=POST,
        loops={1: {"inv": INV1, "modifies": MOD + ["content(selfkeys)"]}, 3: {"inv": INV3, "modifies": MOD}},
        modifies=MOD,
        alloc=True)
    register_refs(R, P, WIDE)
    P["_inherit"] = ["UserSpaceImpl.on_inherit@own_refs", "UserSpaceImpl.on_inherit@cells", "CellsImpl.on_inherit", "UserSpaceImpl.on_del_cells"]


def register_refs(R, P, WIDE):
    """variant attr == "own_refs": the same statement for references; what a derived reference carries (its value, bound
    relatively or absolutely as the mode table of ReferenceImpl.on_inherit says, C10) is summarised by ghost_src = the base
    reference it was last re-derived from"""
    R.classes["ReferenceImpl"].fields.update({"ghost_src": "ReferenceImpl", "ghost_inherits": "int", "name": "str", "ghost_deleted": "bool"})
    R.classes["ModelImpl"].fields.update({"global_refs": "dict[str,ReferenceImpl]"})
    if R.field_type("ReferenceImpl", "ghost_defined") is None: R.classes["ReferenceImpl"].fields["ghost_defined"] = "bool"
    R.macro("rinb", ["bases", "name"], "any(name in bases[j].own_refs for j in range(len(bases)))")
    R.macro("rbdef", ["bases", "j", "name"], "(name in bases[j].own_refs and bases[j].own_refs[name].ghost_defined)")
    R.macro("rfirstdef", ["bases", "j", "name"],
            "(0 <= j and j < len(bases) and rbdef(bases, j, name) and all(implies(i < j, not rbdef(bases, i, name)) for i in range(len(bases))))")
    R.macro("rowned", ["s", "k"], "(s.own_refs[k] is not null and s.own_refs[k].parent is s and s.own_refs[k].name == k)")
    R.macro("rderived_ok", ["self", "bases", "name"],
            "(name in self.own_refs and not self.own_refs[name].ghost_defined and self.own_refs[name].parent is self"
            " and any(rfirstdef(bases, j, name) and self.own_refs[name].ghost_src is bases[j].own_refs[name] for j in every('int')))")

    for q in ("is_derived", "is_defined"):
        if ("ReferenceImpl." + q) not in R.contracts:
            R.contract("extern::ReferenceImpl." + q, trusted=True, pure=True, params={"self": "ReferenceImpl"}, returns="bool",
                       ensures=["result == (self.ghost_defined)" if q == "is_defined" else "result == (not self.ghost_defined)"])
    R.contract("extern::ReferenceImpl.__init__", trusted=True,
        note="ReferenceImpl.__init__ with is_derived=True, set_item=True: a fresh derived placeholder registered under `name` in "
             "parent.own_refs (container.set_item), carrying the given refmode; nothing else in the model changes",
        params={"self": "ReferenceImpl", "parent": "UserSpaceT", "name": "str", "value": "val", "container": "RefContainer", "is_derived": "bool", "refmode": "str"},
        static={"is_derived": True}, nullable=["value"],
        ensures=["not self.ghost_defined", "self.parent is parent", "not self.ghost_deleted", "self.name == name", "self.refmode == refmode",
                 "self.container is container", "name in parent.own_refs and parent.own_refs[name] is self",
                 "all(implies(k != name, (k in parent.own_refs) == old(k in parent.own_refs) and parent.own_refs[k] is old(parent.own_refs[k])) for k in every('str'))"],
        modifies=["content(parent.own_refs)", "self.ghost_defined", "self.parent", "self.interface", "self.is_relative", "self.refmode", "self.container",
                  "self.ghost_deleted", "self.ghost_src", "self.ghost_inherits", "self.name", "self.model"], alloc=True)
    R.contract("extern::ReferenceImpl.on_inherit", variant="view", trusted=True,
        note="call-site view of ReferenceImpl.on_inherit (its own contract: the C10 mode table + C02 invalidation, reference_py.py): "
             "re-derived from bases[0]; may refuse (ValueError) a relative reference that cannot be rebound, keeping its value",
        params={"self": "ReferenceImpl", "updater": "Updater", "bases": "list[ReferenceImpl]"},
        requires=["len(bases) >= 1"],
        ensures=["self.ghost_src is bases[0]", "self.ghost_inherits == old(self.ghost_inherits) + 1"],
        raises={"ValueError": ["self.ghost_src is old(self.ghost_src)"]},
        modifies=["self.interface", "self.is_relative", "self.ghost_src", "self.ghost_inherits", "every(RefContainer.ghost_notified)"] + WIDE, alloc=True)
    R.contract("extern::TraceManager.clear_attr_referrers", variant="view", trusted=True,
        note="call-site view of TraceManager.clear_attr_referrers (own contract in model_py.py): only dependency graph and held values change",
        params={"self": "ModelImpl", "ref": "ReferenceImpl"}, ensures=[], modifies=WIDE, alloc=True)
    R.contract("extern::UserSpaceImpl.on_del_ref", trusted=True,
        note="UserSpaceImpl.on_del_ref (3 lines: clear_subs_rootitems, ReferenceImpl.on_delete (a no-op), own_refs.del_item): the member is "
             "removed from the mapping",
        params={"self": "UserSpaceImpl", "name": "str"},
        requires=["name in self.own_refs"],
        ensures=["name not in self.own_refs", "old(self.own_refs[name]).ghost_deleted",
                 "all(implies(k != name, (k in self.own_refs) == old(k in self.own_refs) and self.own_refs[k] is old(self.own_refs[k])) for k in every('str'))"],
        modifies=["content(self.own_refs)", "old(self.own_refs[name]).ghost_deleted"] + WIDE, alloc=True)

    OLDDEF = "(old(name in self.own_refs) and old(self.own_refs[name]).ghost_defined)"
    OLDDEFK = OLDDEF.replace("name", "k")
    PRE = [
        "OWNED:: all(implies(k in s.own_refs, rowned(s, k)) for s in every('UserSpaceT') for k in every('str'))",
        "NOT-OWN-BASE:: all(bases[j] is not self and bases[j] is not null for j in range(len(bases)))",
        "DEFINED-SOURCE:: all(implies(name in bases[j].own_refs, any(rbdef(bases, i, name) for i in range(len(bases)))) for j in range(len(bases)) for name in every('str'))",
        "all(s.own_refs is not t.own_refs or s is t for s in every('UserSpaceT') for t in every('UserSpaceT'))",
        "all(s.own_refs is not m.global_refs for s in every('UserSpaceT') for m in every('ModelImpl'))",
        "all(implies(k in m.global_refs, m.global_refs[k] is not null) for m in every('ModelImpl') for k in every('str'))",
    ]
    KEPT = ("DEFINED-KEPT:: all(implies(%s, self.own_refs[name] is old(self.own_refs[name]) and self.own_refs[name].ghost_src is old(self.own_refs[name].ghost_src)"
            " and self.own_refs[name].interface == old(self.own_refs[name].interface)"
            " and self.own_refs[name].ghost_inherits == old(self.own_refs[name].ghost_inherits)) for name in every('str'))" % OLDDEF)
    UNT = ("BASES-UNTOUCHED:: all(implies(not fresh(c) and c.parent is not self and old(c.parent) is not self, c.ghost_src is old(c.ghost_src) and c.interface == old(c.interface)"
           " and c.ghost_defined == old(c.ghost_defined)) for c in every('ReferenceImpl'))"
           " and all(unchanged(bases[j].own_refs) for j in range(len(bases)))")
    POST = [
        "LEMMA-INB-SAME:: all(rinb(bases, name) == old(rinb(bases, name)) for name in every('str'))",
        "KEYS:: all((name in self.own_refs) == (%s or rinb(bases, name)) for name in every('str'))" % OLDDEF,
        KEPT,
        "DERIVED-FROM-FIRST-DEFINING-BASE:: all(implies(rinb(bases, name) and not %s, rderived_ok(self, bases, name)) for name in every('str'))" % OLDDEF,
        "DERIVED-REUSED:: all(implies(rinb(bases, name) and old(name in self.own_refs), self.own_refs[name] is old(self.own_refs[name])) for name in every('str'))",
        "STALE-DERIVED-DELETED:: all(implies(old(name in self.own_refs) and not old(self.own_refs[name]).ghost_defined and not rinb(bases, name),"
        " name not in self.own_refs and old(self.own_refs[name]).ghost_deleted) for name in every('str'))",
        "NEW-TAKES-REFMODE:: all(implies(rinb(bases, name) and not old(name in self.own_refs), any(rfirstdef(bases, j, name) and self.own_refs[name].refmode == bases[j].own_refs[name].refmode for j in every('int'))) for name in every('str'))",
        UNT,
    ]
    MOD = ["content(self.own_refs)", "every(ReferenceImpl.interface)", "every(ReferenceImpl.is_relative)", "every(ReferenceImpl.refmode)", "every(ReferenceImpl.container)",
           "every(ReferenceImpl.ghost_src)", "every(ReferenceImpl.ghost_inherits)", "every(ReferenceImpl.ghost_deleted)", "every(ReferenceImpl.model)",
           "every(ReferenceImpl.ghost_defined)", "every(ReferenceImpl.parent)", "every(ReferenceImpl.name)", "every(RefContainer.ghost_notified)"] + WIDE
    COMMON = [
        "FIELDS:: all(implies(c.ghost_defined or c.parent is not self, c.ghost_src is old(c.ghost_src) and c.interface == old(c.interface) and c.refmode == old(c.refmode)"
        " and c.ghost_inherits == old(c.ghost_inherits)) for c in every('ReferenceImpl'))",
        "STABLE:: all(implies(not fresh(c), c.ghost_defined == old(c.ghost_defined) and c.parent is old(c.parent) and c.name == old(c.name)) for c in every('ReferenceImpl'))",
        "OWNED-SELF:: all(implies(k in self.own_refs, rowned(self, k)) for k in every('str'))",
        "BASES-SAME:: all(unchanged(bases[j].own_refs) for j in range(len(bases)))",
        "GLOBALS-SAME:: all(unchanged(m.global_refs) for m in every('ModelImpl'))",
    ]
    DONE = ("DONE:: all(implies(k in _done, k in self.own_refs and implies(old(k in self.own_refs), self.own_refs[k] is old(self.own_refs[k]))"
            " and implies(not %s, rderived_ok(self, bases, k))"
            " and implies(not old(k in self.own_refs), any(rfirstdef(bases, j, k) and self.own_refs[k].refmode == bases[j].own_refs[k].refmode for j in every('int')))) for k in every('str'))" % OLDDEFK)
    INV1 = COMMON + [
        "CHAINKEYS:: all((k in _it) == old(rinb(bases, k)) for k in every('str'))",
        DONE,
        "TODO:: all(implies(k not in _done, (k in self.own_refs) == old(k in self.own_refs) and implies(k in self.own_refs, self.own_refs[k] is old(self.own_refs[k]))) for k in every('str'))",
        "SELFKEYS:: all((k in selfkeys) == (old(k in self.own_refs) and k not in _done) for k in every('str'))",
        "SELFKEYS-IDX:: all(implies(0 <= j and j < len(selfkeys) and k == selfkeys[j], old(k in self.own_refs) and k not in _done) for j in every('int') for k in every('str'))",
        "SELFKEYS-DISTINCT:: all(implies(0 <= a and a < b and b < len(selfkeys), selfkeys[a] != selfkeys[b]) for a in every('int') for b in every('int'))",
        "NONE-DELETED:: all(c.ghost_deleted == old(c.ghost_deleted) or fresh(c) for c in every('ReferenceImpl'))",
    ]
    INV3 = COMMON + [
        "S-DISTINCT:: all(implies(0 <= a and a < b and b < len(_s), _s[a] != _s[b]) for a in every('int') for b in every('int'))",
        "S-MEANS:: all((k in _s) == (old(k in self.own_refs) and not old(rinb(bases, k))) for k in every('str'))",
        "S-OLD:: all(implies(0 <= j and j < len(_s), old(_s[j] in self.own_refs) and not old(rinb(bases, _s[j]))) for j in every('int'))",
        "INB-DONE:: all(implies(old(rinb(bases, k)), k in self.own_refs and implies(old(k in self.own_refs), self.own_refs[k] is old(self.own_refs[k]))"
        " and implies(not %s, rderived_ok(self, bases, k))"
        " and implies(not old(k in self.own_refs), any(rfirstdef(bases, j, k) and self.own_refs[k].refmode == bases[j].own_refs[k].refmode for j in every('int')))) for k in every('str'))" % OLDDEFK,
        "NEW-ONLY-INB:: all(implies(not old(k in self.own_refs) and not old(rinb(bases, k)), k not in self.own_refs) for k in every('str'))",
        "REST:: all(implies(_i <= j and j < len(_s), _s[j] in self.own_refs and self.own_refs[_s[j]] is old(self.own_refs[_s[j]])) for j in every('int'))",
        "SWEPT:: all(implies(0 <= j and j < _i, ite(old(self.own_refs[_s[j]]).ghost_defined, _s[j] in self.own_refs and self.own_refs[_s[j]] is old(self.own_refs[_s[j]]),"
        " _s[j] not in self.own_refs and old(self.own_refs[_s[j]]).ghost_deleted)) for j in every('int'))",
    ]
    R.contract(S + "::UserSpaceImpl.on_inherit", variant="own_refs",
        params={"self": "UserSpaceImpl", "updater": "Updater", "bases": "list[UserSpaceImpl]", "attr": "str"},
        static={"attr": "own_refs"},
        views={"ReferenceImpl.on_inherit": "ReferenceImpl.on_inherit@view", "TraceManager.clear_attr_referrers": "TraceManager.clear_attr_referrers@view"},
        locals={"selfkeys": "list[str]"}, field_types={"CustomChainMap.maps": "list[dict[str,ReferenceImpl]]"},
        requires=PRE, ensures=POST,
        # a relative reference that cannot be rebound in this space aborts the re-derivation (C10/C11: the caller restores)
        raises={"ValueError": [KEPT, UNT]},
        loops={1: {"inv": INV1, "modifies": MOD + ["content(selfkeys)"]}, 3: {"inv": INV3, "modifies": MOD}},
        modifies=MOD, alloc=True)
