import modelx as mx, warnings
warnings.simplefilter("ignore")
m = mx.new_model("M"); S = m.new_space("S")
S.new_cells("foo", formula="def foo(x):\n    return x")
S.new_cells("bar", formula="def bar(x):\n    return foo(x) + 1")
S.foo[1] = 5
print("before: foo =", dict(S.foo), "is_input:", S.foo.is_input(1), "bar(1) =", S.bar(1))
try:
    S.foo[1] = None
except Exception as e:
    print("rejected:", type(e).__name__)
print("after rejected assignment: foo =", dict(S.foo), "bar =", dict(S.bar), "-> foo(1) now", S.foo(1))
