import modelx as mx, warnings, traceback
warnings.simplefilter("ignore")
m = mx.new_model("M")
X = m.new_space("X"); X.new_cells("foo", formula="lambda: 1"); X.new_cells("bar", formula="lambda: 2")
B = m.new_space("B"); B.r = X.foo
S = m.new_space("Sub", bases=B)
S.formula = lambda i: None
S.new_cells("c", formula=lambda: r())
print("new_ref path:", S[1].r, S[1].c())
B.r = X.bar
print("S.r after change:", S.r, "is_relative", S._impl.own_refs["r"].is_relative, "derived", S._impl.own_refs["r"].is_derived())
try:
    print("change_ref path:", S[1].r, S[1].c())
except Exception as e:
    traceback.print_exc()
