import modelx as mx, warnings, traceback
import pandas as pd
warnings.simplefilter("ignore")
m = mx.new_model("M"); S = m.new_space("S"); T = S.new_space("T")
df = pd.DataFrame({"a":[1,2]})
T.new_pandas("d", "d.xlsx", df, file_type="excel")
print("specs:", m.iospecs)
del S.T
print("after deleting space T: specs:", m.iospecs, "| refmgr keys:", len(m._impl.refmgr._valid_to_refs))
try: mx.core.mxsys._check_sanity(); print("sanity ok")
except Exception as e: traceback.print_exc()
# rejected creation
m2 = mx.new_model("M2"); S2 = m2.new_space("S"); S2.new_cells("d", formula="lambda x: x")
try:
    S2.new_pandas("d", "d.xlsx", df, file_type="excel"); print("accepted?!", m2.iospecs)
except Exception as e:
    print("rejected:", type(e).__name__, e, "| specs:", m2.iospecs, "| ios:", dict(mx.core.mxsys.iomanager.ios))
# same file location by two specs
m3 = mx.new_model("M3"); S3 = m3.new_space("S")
df2 = pd.DataFrame({"b":[1]})
S3.new_pandas("d1", "f.xlsx", df, file_type="excel", sheet="s1")
try:
    S3.new_pandas("d2", "f.xlsx", df2, file_type="excel", sheet="s1"); print("two specs same sheet accepted?!", m3.iospecs)
except Exception as e: print("same location rejected:", type(e).__name__, e, m3.iospecs, list(S3._own_refs))
