import modelx as mx, warnings, traceback, tempfile, os
import pandas as pd
warnings.simplefilter("ignore")
m = mx.new_model("M")
S = m.new_space("S")
df = pd.DataFrame({"a":[1,2]})
S.new_pandas("d", "d.xlsx", df, file_type="excel")
print("refmode before:", mx.get_object("M.S.d", as_proxy=True).refmode)
df2 = pd.DataFrame({"a":[3,4]})
m.update_pandas(df, df2)
print("refmode after:", mx.get_object("M.S.d", as_proxy=True).refmode)
print(m.iospecs, S.d is df2)
try:
    mx.core.mxsys._check_sanity(); print("sanity ok")
except Exception as e: traceback.print_exc()
with tempfile.TemporaryDirectory() as t:
    p = os.path.join(t,"m")
    try:
        m.write(p); print(open(os.path.join(p,"S","__init__.py")).read()[-200:])
        m2 = mx.read_model(p, name="M2"); print(m2.S.d)
    except Exception as e: traceback.print_exc()
