import modelx as mx, warnings
warnings.simplefilter("ignore")
m = mx.new_model("M"); S = m.new_space("S")
f = S.new_cells("f", formula="def f(x): return x")
src_before = f.formula.source
try:
    f.doc = "plain"
    print("doc set:", repr(f.doc)); print(f.formula.source)
except SyntaxError as e:
    print("Cells.doc setter on a one-line def raised SyntaxError:", e)
    print("source unchanged:", f.formula.source == src_before, "| f(3) =", f(3))
