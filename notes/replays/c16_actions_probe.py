import modelx as mx, warnings, traceback, itertools, random
warnings.simplefilter("ignore")
from modelx.core.errors import DeletedObjectError
# C16 brute: random DAGs
def build(n, edges):
    m = mx.new_model("G"); S = m.new_space("S")
    for i in range(n):
        preds = [a for a,b in edges if b==i]
        body = " + ".join(["1"] + ["c%d()"%p for p in preds])
        S.new_cells("c%d"%i, formula="def c%d():\n    return %s" % (i, body))
    return m, S
random.seed(1)
bad = 0; runs = 0
for trial in range(150):
    n = random.randint(1,7)
    edges = [(a,b) for a in range(n) for b in range(a+1,n) if random.random()<0.4]
    for step in (1,2,3,10):
        m, S = build(n, edges)
        tg = random.sample(range(n), random.randint(1,n))
        direct = {i: S.cells["c%d"%i]() for i in tg}
        m.clear_all()
        targets = [S.cells["c%d"%i].node() for i in tg]
        try:
            acts = m.generate_actions(targets, step_size=step)
            left = [k for k,c in S.cells.items() if len(c)]
            assert not left, ("leftover after generate", left)
            log = []
            m.execute_actions(acts)
            vals = {i: dict(S.cells["c%d"%i]) for i in range(n)}
            for i in range(n):
                if i in tg: assert vals[i] == {(): direct[i]} or vals[i]=={None:direct[i]} or list(vals[i].values())==[direct[i]], (i, vals[i], direct[i])
                else: assert not vals[i], ("nontarget kept", i, vals[i])
        except AssertionError as e:
            bad += 1
            if bad < 6: print("FAIL n=%d edges=%s tg=%s step=%d: %s"%(n,edges,tg,step,e))
        except Exception as e:
            bad += 1
            if bad < 6: print("EXC n=%d edges=%s tg=%s step=%d: %s %s"%(n,edges,tg,step,type(e).__name__, e))
        runs += 1
        m.close()
print("runs", runs, "bad", bad)
