import modelx as mx, warnings, traceback
warnings.simplefilter("ignore")
m = mx.new_model("M")
X = m.new_space("X"); X.new_cells("foo", formula="lambda: 1"); X.r = X.foo      # auto ref to own cells
A = m.new_space("A")
try:
    AX = A.new_space("X", bases=X)
    print("A.X.r ->", AX.r, "(expected <Cells M.A.X.foo()>)")
except Exception as e:
    print("deriving a nested space from a top-level space of the same name FAILED:", type(e).__name__, e)
    print("A.spaces after the rejected edit:", list(A.spaces))
# control: different names
Y = m.new_space("Y"); Y.new_cells("foo", formula="lambda: 1"); Y.r = Y.foo
AZ = A.new_space("Z", bases=Y); print("control A.Z.r ->", AZ.r)
