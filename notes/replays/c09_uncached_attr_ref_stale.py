import modelx as mx, warnings
warnings.simplefilter("ignore")
def build(cached):
    m = mx.new_model("M"); S = m.new_space("S"); Ch = S.new_space("Child"); Ch.y = 1
    S.new_cells("u", formula="def u():\n    return Child.y * 10", is_cached=cached)
    S.new_cells("c", formula="def c():\n    return u() + 1")
    return m, S
for cached in (True, False):
    m, S = build(cached)
    print("u cached=%s: c() ="%cached, S.c(), end="; ")
    S.Child.y = 2
    print("after Child.y=2: c() =", S.c(), "(expected 21)")
    print("   refgraph edges:", [(str(a), str(b)) for a,b in m._impl.refgraph.edges], "tracegraph:", list(map(str, m.tracegraph.nodes)))
    m.close()
# by-name read through uncached
m = mx.new_model("M"); S = m.new_space("S"); S.y = 1
S.new_cells("u", formula="def u():\n    return y * 10", is_cached=False)
S.new_cells("c", formula="def c():\n    return u() + 1")
print(S.c(), end=" -> "); S.y = 2; print(S.c(), "(expected 21)")
