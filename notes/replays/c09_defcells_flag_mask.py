import modelx as mx, warnings
warnings.simplefilter("ignore")
m = mx.new_model("M"); S = m.new_space("S")
@mx.defcells(space=S)
def foo(x):
    return x
print(foo(1), foo.is_cached)
@mx.defcells(space=S, is_cached=False)
def foo(x):
    return x * 100
print("after redefinition with is_cached=False:", S.foo(1), S.foo.is_cached, "(expected 100 False)")
@mx.uncached(space=S)
def foo(x):
    return x * 7
print("after uncached redefinition:", S.foo(1), S.foo.is_cached)
