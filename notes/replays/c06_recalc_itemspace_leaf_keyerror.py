import modelx as mx, warnings, traceback
warnings.simplefilter("ignore")
m = mx.new_model("M"); S = m.new_space("S")
S.new_cells("foo", formula="def foo(x):\n    return x")
P = m.new_space("P")
P.foo = S.foo
P.formula = "lambda i: {'refs': {'k': foo(i)}}"
P.new_cells("c", formula="def c():\n    return k * 2")
print("P[1].c() =", P[1].c())
mx.set_recalc(True)
try:
    S.foo[1] = 10
    print("assigned; P[1].c() =", P[1].c(), "(expected 20)")
except Exception as e:
    print("assignment with recalc on FAILED:", type(e).__name__, e)
    print("foo =", dict(S.foo))
finally:
    mx.set_recalc(False)
