import modelx as mx, warnings
import pandas as pd
warnings.simplefilter("ignore")
m = mx.new_model("M"); S = m.new_space("S")
df = pd.DataFrame({"a": [1, 2]})
S.new_pandas("d", "d.xlsx", df, file_type="excel")
print("specs before:", m.iospecs)
S.d = df                      # rebind the same name to the same object
print("after S.d = df (same object): specs:", m.iospecs, "| S.d is df:", S.d is df)
# second name then rebind first name to something else, then delete second
m2 = mx.new_model("M2"); T = m2.new_space("T")
df2 = pd.DataFrame({"b": [1]})
T.new_pandas("p", "p.xlsx", df2, file_type="excel"); T.q = df2
T.p = 1
print("after rebinding p away (q still bound): specs:", m2.iospecs)
del T.q
print("after deleting q: specs:", m2.iospecs)
mx.core.mxsys._check_sanity(); print("sanity ok")
