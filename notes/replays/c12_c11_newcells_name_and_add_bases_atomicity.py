import modelx as mx, warnings, traceback
warnings.simplefilter("ignore")
m = mx.new_model("M"); S = m.new_space("S"); S.x = 1
try:
    c = S.new_cells(formula="def x(): return 5")
    print("created cells", c, "| S.cells", list(S.cells), "| own_refs", list(S._own_refs), "| S.x ->", S.x)
except Exception as e: print("rejected", type(e).__name__, e)
# add_bases atomicity with relative ref out of scope
m = mx.new_model("M2"); X = m.new_space("X"); X.new_cells("foo", formula="lambda: 1")
B = m.new_space("B"); B.new_cells("bc", formula="lambda: 2"); B.relref(r=X.foo)
S = m.new_space("S")
def desc(): return {"S.cells": list(S.cells), "S.refs": list(S._own_refs), "S.bases": [b.name for b in S.bases]}
before = desc()
try:
    S.add_bases(B); print("accepted", desc())
except Exception as e:
    print("rejected:", type(e).__name__, e); print(" before", before); print(" after ", desc())
try: m._impl._check_sanity(); print("sanity ok")
except Exception as e: traceback.print_exc()
