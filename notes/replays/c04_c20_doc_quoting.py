import modelx as mx, tempfile, os, warnings, traceback
warnings.simplefilter("ignore")
def rt(doc, where):
    m = mx.new_model("M")
    s = m.new_space("S")
    s.new_cells("f", formula="def f(x):\n    return x")
    l = s.new_cells("g", formula=lambda x: x)
    try:
      if where=="model": m.doc = doc
      elif where=="space": s.doc = doc
      elif where=="cells": s.f.doc = doc
      elif where=="lambda": l.doc = doc
    except Exception as e:
        print(where, repr(doc), "SET FAIL", type(e).__name__, e); m.close(); return
    with tempfile.TemporaryDirectory() as t:
        p = os.path.join(t, "m")
        try:
            m.write(p)
        except Exception as e:
            print(where, repr(doc), "WRITE FAIL", type(e).__name__, e); m.close(); return
        try:
            m2 = mx.read_model(p, name="M2")
            got = {"model": m2.doc, "space": m2.S.doc, "cells": m2.S.f.doc, "lambda": m2.S.g.doc}[where]
            print(where, repr(doc), "->", repr(got), "OK" if got==doc else "MISMATCH")
            m2.close()
        except Exception as e:
            print(where, repr(doc), "READ FAIL", type(e).__name__, e)
    m.close()
for w in ["model","space","cells","lambda"]:
    for d in ['plain', 'ends with quote"', 'has """ inside', 'back\\slash', 'multi\nline', "it's"]:
        rt(d, w)
