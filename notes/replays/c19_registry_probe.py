import modelx as mx, warnings, traceback
warnings.simplefilter("ignore")
def show(): return {k: v.name for k,v in mx.get_models().items()}
a = mx.new_model("A"); b = mx.new_model("A"); print(show())
c = mx.new_model("A_BAK1"); print(show())
d = mx.new_model("A"); print(show())
# rename onto taken name without rename_old
try:
    d.rename("A_BAK1"); print("rename onto taken:", show(), d.name)
except Exception as e: print("rename rejected", type(e).__name__, e)
d.rename("A_BAK1", rename_old=True); print("rename_old:", show())
for k,v in mx.get_models().items(): assert k==v.name, (k, v.name)
# invalid rename
try: d.rename("1bad")
except Exception as e: print("invalid:", type(e).__name__, e, show())
# rename to same
d.rename(d.name); print(show())
# closing
n0 = len(mx.get_models()); a.close(); print(len(mx.get_models())==n0-1, show())
try: a.close()
except Exception as e: print("double close:", type(e).__name__, e)
