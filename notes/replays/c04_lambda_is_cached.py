import modelx as mx, tempfile, os, warnings
warnings.simplefilter("ignore")
m = mx.new_model("M")
s = m.new_space("S")
c = s.new_cells("lam", formula=lambda x: x+1, is_cached=False)
d = s.new_cells("fd", formula="def fd(x): return x", is_cached=False)
print("before:", c.is_cached, d.is_cached)
with tempfile.TemporaryDirectory() as t:
    p = os.path.join(t, "m")
    m.write(p)
    print(open(os.path.join(p,"S","__init__.py")).read())
    m2 = mx.read_model(p, name="M2")
    print("after:", m2.S.lam.is_cached, m2.S.fd.is_cached)
