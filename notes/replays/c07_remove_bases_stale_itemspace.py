import modelx as mx, warnings, traceback
warnings.simplefilter("ignore")
m = mx.new_model("M")
B1 = m.new_space("B1"); B1.new_cells("foo", formula="lambda: 1")
B2 = m.new_space("B2"); B2.new_cells("foo", formula="lambda: 2")
S = m.new_space("S", bases=[B1, B2]); S.formula = lambda i: None
h = S[1]
print("S.foo()", S.foo(), "S[1].foo()", S[1].foo())
S.remove_bases(B1)
print("after remove_bases(B1): S.foo()", S.foo(), end=" ")
try: print("S[1].foo()", S[1].foo(), "| same handle:", S[1] is h, "| old handle foo:", h.foo())
except Exception as e: print(type(e).__name__, e)
# base formula change via direct set in base (set_cells_property path)
B2.foo.formula = "lambda: 3"
print("after B2.foo=3: S.foo()", S.foo(), "S[1].foo()", S[1].foo())
