import modelx as mx, warnings
warnings.simplefilter("ignore")
m = mx.new_model("M"); S = m.new_space("S")
for bad in ["_hidden", "not valid", "1x", "class"]:
    try:
        S.rename(bad); print("space renamed to", repr(S.name), list(m.spaces))
    except Exception as e: print("rejected", repr(bad), type(e).__name__, e)
c = S.new_cells("c", formula="lambda: 1")
for bad in ["_hidden", "not valid", "class"]:
    try: c.rename(bad); print("cells renamed to", repr(c.name))
    except Exception as e: print("cells rename rejected", repr(bad), type(e).__name__)
# C16 with pre-existing values
m2 = mx.new_model("G"); T = m2.new_space("T")
T.new_cells("a", formula="def a():\n    return 1"); T.new_cells("b", formula="def b():\n    return a()+1"); T.new_cells("c", formula="def c():\n    return b()+1")
T.a(); T.b()   # pre-existing computed values
acts = m2.generate_actions([T.c.node()], step_size=2)
print(acts); print("left after generate:", {k: dict(v) for k,v in T.cells.items()})
