import modelx as mx, warnings
warnings.simplefilter("ignore")
# root "S" vs target in "S2": DynBaseRefDict.wrap_impl compares dotted names by string prefix
m = mx.new_model("M")
S = m.new_space("S"); S2 = m.new_space("S2")
S2.new_cells("foo", formula="lambda: 7")
S.formula = lambda i: None
S.r = S2.foo      # auto mode, target outside of S's tree
S.new_cells("c", formula="lambda: r()")
print("S.r ->", S.r, " S.c() =", S.c())
try:
    print("S[1].r ->", S[1].r, " value", S[1].c())
except Exception as e:
    print("ItemSpace creation FAILED:", type(e).__name__, str(e).splitlines()[:3])
