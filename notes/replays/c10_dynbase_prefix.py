import modelx as mx, warnings, traceback
warnings.simplefilter("ignore")
# prefix bug: root "S" vs target in "S2"
m = mx.new_model("M")
S = m.new_space("S"); S2 = m.new_space("S2")
S2.new_cells("foo", formula=lambda: 7)
S.formula = lambda i: None
S.r = S2.foo      # auto mode, outside of S tree
S.new_cells("c", formula=lambda: r())
try:
    print("S[1].r ->", S[1].r, " value", S[1].c())
except Exception as e:
    print("prefix case FAIL:", type(e).__name__, e)

# derived relative ref pointing above the dynbase root
m = mx.new_model("M4")
B = m.new_space("B"); Bc = B.new_space("child")
Bc.up = B      # auto: ref to parent space
Bc.formula = lambda i: None
Bc.new_cells("c", formula=lambda: up.name)
S = m.new_space("S", bases=B)
print("S.child.up ->", S.child.up)
try:
    print("S.child[1].up ->", S.child[1].up, S.child[1].c())
except Exception as e:
    print("derived-relative-above-root FAIL:", type(e).__name__, e)
try:
    print("B.child[1].up ->", B.child[1].up, B.child[1].c())
except Exception as e:
    print("defined above-root FAIL:", type(e).__name__, e)
