import modelx as mx, warnings
warnings.simplefilter("ignore")
m = mx.new_model("M"); S = m.new_space("S"); Ch = S.new_space("Child"); Ch.y = 3
S.new_cells("u", formula="def u(xs):\n    return sum(xs) * Child.y", is_cached=False)
S.new_cells("v", formula="def v(xs):\n    return sum(xs)", is_cached=False)
S.new_cells("c", formula="def c():\n    return u([1, 2])")
print("v([1,2]) =", S.v([1, 2]))
try: print("u([1,2]) =", S.u([1, 2]))
except Exception as e: print("u([1,2]) raised:", type(e).__name__, str(e).splitlines()[:2])
try: print("c() =", S.c())
except Exception as e: print("c() raised:", type(e).__name__, str(e).splitlines()[:2])
