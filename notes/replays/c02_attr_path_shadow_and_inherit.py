import modelx as mx, warnings
warnings.simplefilter("ignore")
# (a) attr-path read of model-level ref, later shadowed in the space
m = mx.new_model("M"); m.x = 1
S = m.new_space("S"); T = m.new_space("T")
T.new_cells("t", formula="def t():\n    return _model.S.x * 10")
print("t() =", T.t(), end="; ")
S.x = 2
print("after S.x=2 (shadow): S.x =", S.x, " t() =", T.t(), "(expected 20)")
# (b) attr-path read of derived ref whose provider changes by remove_bases
m = mx.new_model("M2")
B1 = m.new_space("B1"); B1.r = 1
B2 = m.new_space("B2"); B2.r = 2
Sub = m.new_space("Sub", bases=[B1, B2]); T = m.new_space("T")
T.new_cells("t", formula="def t():\n    return _model.Sub.r * 10")
print("t() =", T.t(), end="; ")
Sub.remove_bases(B1)
print("after remove_bases(B1): Sub.r =", Sub.r, " t() =", T.t(), "(expected 20)")
# (c) by-name read in sub of derived ref, provider changes
m = mx.new_model("M3")
B1 = m.new_space("B1"); B1.r = 1
B2 = m.new_space("B2"); B2.r = 2
Sub = m.new_space("Sub", bases=[B1, B2]); Sub.new_cells("u", formula="def u():\n    return r * 10")
print("u() =", Sub.u(), end="; "); Sub.remove_bases(B1); print("after: u() =", Sub.u(), "(expected 20)")
