import modelx as mx, warnings, traceback
warnings.simplefilter("ignore")
from modelx.core.errors import DeletedObjectError
def alive(h):
    try: h.name; return True
    except DeletedObjectError: return False
m = mx.new_model("M"); S = m.new_space("S"); S.formula = lambda i: None
S.new_cells("foo", formula="lambda: 1"); C = S.new_space("C"); C.new_cells("bar", formula="lambda: 2")
h = S[1]; hf = h.foo; hc = h.C; hb = h.C.bar; hf(); hb()
Sub = m.new_space("Sub", bases=S); dfoo = Sub.foo; dfoo()
print("tracegraph before:", len(m.tracegraph.nodes))
del m.S
print("after del S: S", alive(S), "S.foo", alive(S.foo) if False else "-", "C", alive(C), "itemspace", alive(h), "item.foo", alive(hf), "item.C", alive(hc), "item.C.bar", alive(hb), "derived Sub.foo", alive(dfoo), "Sub", alive(Sub))
print("tracegraph after:", [str(n) for n in m.tracegraph.nodes])
print("Sub.bases", Sub.bases, "Sub.cells", list(Sub.cells))
# C12: first-sub-only check
m = mx.new_model("M2"); B = m.new_space("B"); S1 = m.new_space("S1", bases=B); S2 = m.new_space("S2", bases=B)
S1.new_cells("x", formula="lambda: 1"); S2.x = 5
try:
    B.new_cells("x", formula="lambda: 0"); print("accepted: S2.cells", list(S2.cells), "S2.own_refs", list(S2._own_refs))
except Exception as e: print("rejected", type(e).__name__, e)
