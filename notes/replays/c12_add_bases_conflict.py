import modelx as mx, warnings
warnings.simplefilter("ignore")
m = mx.new_model("M")
A = m.new_space("A"); B = m.new_space("B")
A.new_cells("x", formula=lambda: 1)
B.x = 5           # ref named x in B
try:
    B.add_bases(A)
    print("add_bases accepted")
    print("B.cells:", list(B.cells), "B._own_refs:", list(B._own_refs), "B.x ->", B.x)
    print("dir has x count:", dir(B).count("x"))
    try: m._impl._check_sanity(); print("sanity ok")
    except AssertionError as e: print("sanity FAIL", e)
except Exception as e:
    print("rejected:", type(e).__name__, e)

m2 = mx.new_model("M2")
A = m2.new_space("A"); B = m2.new_space("B", bases=A)
B.new_space("x")
try:
    A.new_cells("x", formula=lambda: 1)
    print("new_cells in base accepted; B.cells", list(B.cells), "B.spaces", list(B.spaces))
except Exception as e:
    print("rejected:", type(e).__name__, e)
m3 = mx.new_model("M3")
A = m3.new_space("A"); B = m3.new_space("B")
A.new_space("x"); B.new_cells("x", formula=lambda: 1)
try:
    B.add_bases(A); print("accepted (space x in base, cells x in sub)", list(B.cells), list(B.spaces))
except Exception as e:
    print("rejected:", type(e).__name__, e)
