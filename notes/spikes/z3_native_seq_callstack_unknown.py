import z3, time
Ref = z3.DeclareSort("Ref"); Key = z3.DeclareSort("Key"); RefObj = z3.DeclareSort("RefObj")
Node = z3.Datatype("Node"); Node.declare("mk", ("obj", Ref), ("key", Key)); Node.declare("on", ("oobj", Ref)); Node = Node.create()
Pair = z3.Datatype("Pair"); Pair.declare("pr", ("d", z3.IntSort()), ("r", RefObj)); Pair = Pair.create()
is_cached = z3.Function("is_cached", Ref, z3.BoolSort())
SeqN = z3.SeqSort(Node); SeqI = z3.SeqSort(z3.IntSort()); SeqP = z3.SeqSort(Pair)
NSet = z3.ArraySort(Node, z3.BoolSort()); ESet = z3.ArraySort(Node, NSet)
def nobj(n): return z3.If(Node.is_mk(n), Node.obj(n), Node.oobj(n))
L = z3.Length
def WF(stack, idx, counter):
    i = z3.Int("i")
    return z3.And(L(stack)==L(idx), counter==L(stack),
        z3.ForAll([i], z3.Implies(z3.And(0<=i, i<L(stack)),
            z3.And(Node.is_mk(stack[i]),
             idx[i] == z3.If(is_cached(Node.obj(stack[i])), i, z3.If(i>0, idx[i-1], -1))))))
def prove(name, hyps, goal, timeout=30000):
    s = z3.Solver(); s.set("timeout", timeout); s.add(*hyps); s.add(z3.Not(goal))
    t=time.time(); r = s.check(); print(name, "->", "proved" if r==z3.unsat else r, "%.2fs"%(time.time()-t))
    return s if r==z3.sat else None
stack, idx, counter = z3.Const("stack", SeqN), z3.Const("idx", SeqI), z3.Int("counter")
item = z3.Const("item", Node)
# --- append (normal path) : symbolic execution result
stacklen = L(stack)
idx1 = z3.If(is_cached(Node.obj(item)), z3.Concat(idx, z3.Unit(stacklen)),
        z3.If(stacklen != 0, z3.Concat(idx, z3.Unit(idx[L(idx)-1])), z3.Concat(idx, z3.Unit(z3.IntVal(-1)))))
stack1 = z3.Concat(stack, z3.Unit(item)); counter1 = counter+1
prove("append preserves WF", [WF(stack,idx,counter), Node.is_mk(item)], WF(stack1, idx1, counter1))
# --- pop: stack nonempty
node = stack[L(stack)-1]
stack2 = z3.SubSeq(stack, 0, L(stack)-1); idx2 = z3.SubSeq(idx, 0, L(idx)-1); counter2 = counter-1
prove("pop preserves WF", [WF(stack,idx,counter), L(stack)>0], WF(stack2, idx2, counter2))
# idx meaning lemma: idx[i] is -1 or index of a cached entry <= i, nearest
j = z3.Int("j"); k=z3.Int("k")
near = z3.ForAll([j], z3.Implies(z3.And(0<=j, j<L(stack)),
          z3.And(idx[j] >= -1, idx[j] <= j,
                 z3.Implies(idx[j]>=0, is_cached(Node.obj(stack[idx[j]]))))))
prove("idx points to cached (needs induction?)", [WF(stack,idx,counter)], near, 10000)
