import z3, time
S = z3.StringSort()
SeqS = z3.SeqSort(S)
tg, ns = z3.Consts("tg ns", SeqS)
sh = z3.Int("sh")
L = z3.Length
def ext(s,a,n): return z3.SubSeq(s,a,n)
def prove(name, hyps, goal, timeout=20000):
    s = z3.Solver(); s.set("timeout", timeout)
    s.add(*hyps); s.add(z3.Not(goal))
    t=time.time(); r = s.check(); print(name, "->", "proved" if r==z3.unsat else r, "%.2fs"%(time.time()-t))
    if r==z3.sat: print(s.model())
# loop step
inv = lambda k: z3.And(0<=k, k<=L(tg), k<=L(ns), ext(tg,0,k)==ext(ns,0,k))
prove("step", [inv(sh), sh<L(tg), sh<L(ns), tg[sh]==ns[sh]], inv(sh+1))
# exit + roundtrip
dots = L(ns)-sh+1
res_rel_tail = ext(tg, sh, L(tg)-sh)       # tg[tglen-names:] with names = tglen - shared
shared2 = L(ns)-dots+1
absr = z3.Concat(ext(ns,0,shared2), res_rel_tail)
prove("roundtrip", [inv(sh)], absr==tg)
# maximality not needed. Also the string version: dots string
d = z3.Int("d")
def unfold(s,k): return z3.Implies(z3.And(0<=k, k<L(s)), ext(s,0,k+1)==z3.Concat(ext(s,0,k), z3.Unit(s[k])))
prove("lemma-unfold", [], unfold(tg,sh))
prove("step+lemma", [inv(sh), sh<L(tg), sh<L(ns), tg[sh]==ns[sh], unfold(tg,sh), unfold(ns,sh)], inv(sh+1))
