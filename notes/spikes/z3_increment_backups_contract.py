# Spike: (1) _increment_backups recursion contract over an FS model; (2) remove_with_descs/clear lemma with Desc axioms
import z3, time
def prove(name, hyps, goal, timeout=30000):
    s = z3.Solver(); s.set("timeout", timeout); s.add(*hyps); s.add(z3.Not(goal))
    t=time.time(); r = s.check(); print(name, "->", "proved" if r==z3.unsat else r, "%.2fs"%(time.time()-t))
    if r==z3.sat: print(s.model())
I = z3.IntSort(); B = z3.BoolSort()
C = z3.DeclareSort("Content")
Ex = z3.ArraySort(I, B); Ct = z3.ArraySort(I, C)
# Post(nth, ex0,ct0, ex1,ct1, mx): contract of _increment_backups
def allex(ex, a, b):  # all exist in [a,b]
    j = z3.Int("j!%d"%allex.c); allex.c+=1
    return z3.ForAll([j], z3.Implies(z3.And(a<=j, j<=b), ex[j]))
allex.c=0
def Post(nth, ex0, ct0, ex1, ct1, mx):
    k = z3.Int("k!%d"%allex.c); allex.c+=1
    shifted = lambda k: allex(ex0, nth, k-1)
    return z3.If(z3.Not(ex0[nth]),
        z3.And(ex1==ex0, ct1==ct0),
        z3.And(z3.Not(ex1[nth]),
          z3.ForAll([k], z3.And(
            z3.Implies(z3.Or(k<nth, k>mx), z3.And(ex1[k]==ex0[k], ct1[k]==ct0[k])),
            z3.Implies(z3.And(nth<k, k<=mx),
               z3.If(shifted(k), z3.And(ex1[k], ct1[k]==ct0[k-1]), z3.And(ex1[k]==ex0[k], ct1[k]==ct0[k])))))))
nth, mx = z3.Ints("nth mx")
ex0, exr, ex2 = z3.Consts("ex0 exr ex2", Ex); ct0, ctr, ct2 = z3.Consts("ct0 ctr ct2", Ct)
# body, case exists & nth<mx: recursive call yields (exr,ctr) with Post(nth+1); then rename nth -> nth+1
hyp = [0<=nth, nth<mx, ex0[nth], Post(nth+1, ex0, ct0, exr, ctr, mx)]
ex_after = z3.Store(z3.Store(exr, nth+1, True), nth, False)
ct_after = z3.Store(ctr, nth+1, ctr[nth])
# precondition of rename: target free
prove("rename target free", hyp, z3.Not(exr[nth+1]))
prove("recursive case post", hyp, Post(nth, ex0, ct0, ex_after, ct_after, mx), 60000)
# base case nth==mx exists -> removed
prove("base case post", [0<=nth, nth==mx, ex0[nth]], Post(nth, ex0, ct0, z3.Store(ex0, nth, False), ct0, mx))
