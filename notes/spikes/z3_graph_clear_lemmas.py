import z3, time
def prove(name, hyps, goal, timeout=30000):
    s = z3.Solver(); s.set("timeout", timeout); s.add(*hyps); s.add(z3.Not(goal))
    t=time.time(); r = s.check(); print(name, "->", "proved" if r==z3.unsat else r, "%.2fs"%(time.time()-t))
    if r==z3.sat: print(s.model())
N = z3.DeclareSort("Node"); B = z3.BoolSort()
NS = z3.ArraySort(N, B); ES = z3.ArraySort(N, NS)
Desc = z3.Function("Desc", ES, N, NS)     # reflexive-transitive descendants incl. source (spec function)
nodes, nodes1 = z3.Consts("nodes nodes1", NS); E, E1 = z3.Consts("E E1", ES)
src = z3.Const("src", N); a,b,c = z3.Consts("a b c", N)
# axioms about Desc (trusted math: reachability)
ax_refl = z3.ForAll([a], Desc(E, a)[a])
ax_closed = z3.ForAll([a,b,c], z3.Implies(z3.And(Desc(E,a)[b], E[b][c]), Desc(E,a)[c]))
# graph well-formed: edges within nodes
wf = lambda nodes,E: z3.ForAll([a,b], z3.Implies(E[a][b], z3.And(nodes[a], nodes[b])))
# contract of remove_with_descs (from nx.descendants + remove_nodes_from contracts), source in graph
D = Desc(E, src)
post = z3.And(z3.ForAll([a], nodes1[a] == z3.And(nodes[a], z3.Not(D[a]))),
              z3.ForAll([a,b], E1[a][b] == z3.And(E[a][b], z3.Not(D[a]), z3.Not(D[b]))))
# Lemma 1: result graph well-formed
prove("wf preserved", [wf(nodes,E), post], wf(nodes1,E1))
# Lemma 2: no remaining node is reachable-in-one-step from a removed node (closure) => remaining nodes' in-edges preserved
prove("in-edges of survivors preserved", [wf(nodes,E), ax_refl, ax_closed, post],
      z3.ForAll([a,b], z3.Implies(z3.And(nodes1[b], E[a][b]), E1[a][b])))
# Lemma 3: survivors do not depend on src: with Dep == E (INV-G2), survivor b has no path from src: i.e. not D[b]
prove("survivors not descendants", [post], z3.ForAll([b], z3.Implies(nodes1[b], z3.Not(D[b]))))
