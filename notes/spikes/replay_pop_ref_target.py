# Replay of the z3 counter-model for POP-REF-TARGET against the real CallStack (stub cells, real graphs)
from collections import deque
from modelx.core.system import CallStack
from modelx.core.model import TraceGraph, ReferenceGraph
class M: pass
class C:
    def __init__(self, name, cached, model): self.name, self.is_cached, self.model = name, cached, model
    def __repr__(self): return self.name
class Ex: pass
m = M(); m.tracegraph = TraceGraph(); m.refgraph = ReferenceGraph()
ex = Ex(); ex.refstack = deque(); ex.rolledback = deque()
cs = CallStack(ex, None)
caller = C("c", True, m); unc = C("u", False, m)
cs.append((caller, ())); cs.append((unc, ()))
ref = "REF(Child.y)"
ex.refstack.append((cs.counter - 1, ref))        # what BaseSpaceImpl.get_attr pushes while u runs
node = cs.pop()
edges = list(m.refgraph.edges)
print("popped", node, "refgraph edges:", edges)
target_ok = (ref, (caller, ())) in edges
print("POP-REF-TARGET holds on this input:", target_ok)
print("tracegraph nodes:", list(m.tracegraph.nodes), "-> clear_attr_referrers(ref) would look up", [e[1] for e in edges], "in the tracegraph:", [e[1] in m.tracegraph for e in edges])
