import z3, time
Ref = z3.DeclareSort("Ref"); Key = z3.DeclareSort("Key")
Node = z3.Datatype("Node"); Node.declare("mk", ("obj", Ref), ("key", Key)); Node.declare("on", ("oobj", Ref)); Node = Node.create()
is_cached = z3.Function("is_cached", Ref, z3.BoolSort())
I = z3.IntSort()
AN = z3.ArraySort(I, Node); AI = z3.ArraySort(I, I)
def WF(sl, se, il, ie, counter):
    i = z3.Int("i")
    return z3.And(sl==il, counter==sl, sl>=0,
        z3.ForAll([i], z3.Implies(z3.And(0<=i, i<sl),
            z3.And(Node.is_mk(se[i]),
             ie[i] == z3.If(is_cached(Node.obj(se[i])), i, z3.If(i>0, ie[i-1], -1))))))
def prove(name, hyps, goal, timeout=30000):
    s = z3.Solver(); s.set("timeout", timeout); s.add(*hyps); s.add(z3.Not(goal))
    t=time.time(); r = s.check(); print(name, "->", "proved" if r==z3.unsat else r, "%.2fs"%(time.time()-t))
    return s if r==z3.sat else None
sl, il, counter = z3.Ints("sl il counter"); se = z3.Const("se", AN); ie = z3.Const("ie", AI)
item = z3.Const("item", Node)
ie1 = z3.If(is_cached(Node.obj(item)), z3.Store(ie, il, sl),
        z3.If(sl != 0, z3.Store(ie, il, ie[il-1]), z3.Store(ie, il, -1)))
prove("append preserves WF", [WF(sl,se,il,ie,counter), Node.is_mk(item)], WF(sl+1, z3.Store(se, sl, item), il+1, ie1, counter+1))
prove("pop preserves WF", [WF(sl,se,il,ie,counter), sl>0], WF(sl-1, se, il-1, ie, counter-1))
j = z3.Int("j")
def near(n): return z3.ForAll([j], z3.Implies(z3.And(0<=j, j<n),
          z3.And(ie[j] >= -1, ie[j] <= j, z3.Implies(ie[j]>=0, is_cached(Node.obj(se[ie[j]]))))))
prove("near (no induction)", [WF(sl,se,il,ie,counter)], near(sl), 10000)
# inductive step for near as lemma: near(n) & WF & n<sl => near(n+1)
n = z3.Int("n")
prove("near step", [WF(sl,se,il,ie,counter), near(n), 0<=n, n<sl], near(n+1), 10000)
