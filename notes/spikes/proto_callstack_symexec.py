"""Throw-away prototype: path-wise symbolic execution of real modelx source
(CallStack.append/pop/rollback) into z3 with array+length sequences and a field heap.
Purpose: de-risk DESIGN.md section 2.3/2.4.  Not framework code."""
import ast, sys, time, itertools
import z3

REPO = "/repo"
I, B = z3.IntSort(), z3.BoolSort()
Ref = z3.DeclareSort("Ref"); Key = z3.DeclareSort("Key")
Node = z3.Datatype("Node"); Node.declare("item", ("obj", Ref), ("key", Key)); Node.declare("objnode", ("oobj", Ref)); Node = Node.create()
Pair = z3.Datatype("Pair"); Pair.declare("pr", ("d", I), ("r", Ref)); Pair = Pair.create()
NSet = z3.ArraySort(Node, B); ESet = z3.ArraySort(Node, NSet); RE = z3.ArraySort(Ref, NSet)

class Seq:                      # immutable symbolic sequence value
    def __init__(self, n, a, sort): self.n, self.a, self.sort = n, a, sort
    def append(self, x): return Seq(self.n + 1, z3.Store(self.a, self.n, x), self.sort)
    def last(self): return z3.Select(self.a, self.n - 1)
    def droplast(self): return Seq(self.n - 1, self.a, self.sort)
    def at(self, i): return z3.Select(self.a, z3.If(i >= 0, i, self.n + i))

FIELDS = {  # field name -> (owner sort, value kind)
    "idxstack": "ref", "refstack": "ref", "executor": "ref", "rolledback": "ref",
    "counter": "int", "maxdepth": "int", "is_cached": "bool", "model": "ref",
    "tracegraph": "ref", "refgraph": "ref",
}
SEQSORT = {"self": Node, "idxstack": I, "refstack": Pair, "rolledback": Node}

class State:
    def __init__(self, tag):
        self.pc = []; self.loc = {}; self.tag = tag
        self.f = {}
        for k, kind in FIELDS.items():
            rng = {"ref": Ref, "int": I, "bool": B}[kind]
            self.f[k] = z3.Const(f"{tag}_{k}", z3.ArraySort(Ref, rng))
        # sequence contents per element sort: Ref -> (len, arr)
        self.slen = z3.Const(f"{tag}_slen", z3.ArraySort(Ref, I))
        self.selt = {s: z3.Const(f"{tag}_selt_{s}", z3.ArraySort(Ref, z3.ArraySort(I, s))) for s in (Node, I, Pair)}
        self.gn = z3.Const(f"{tag}_gn", z3.ArraySort(Ref, NSet))
        self.ge = z3.Const(f"{tag}_ge", z3.ArraySort(Ref, ESet))
        self.re = z3.Const(f"{tag}_re", z3.ArraySort(Ref, RE))
        self.exc = None; self.ret = None; self.done = False
    def copy(self):
        s = State.__new__(State); s.__dict__ = dict(self.__dict__)
        s.pc = list(self.pc); s.loc = dict(self.loc); s.f = dict(self.f); s.selt = dict(self.selt); return s
    def seq(self, ref, sort): return Seq(self.slen[ref], self.selt[sort][ref], sort)
    def setseq(self, ref, sq):
        self.slen = z3.Store(self.slen, ref, sq.n); self.selt[sq.sort] = z3.Store(self.selt[sq.sort], ref, sq.a)

class TV:   # typed value
    def __init__(self, v, ty, elem=None): self.v, self.ty, self.elem = v, ty, elem

CONSTS = {"OBJ": 0, "KEY": 1}

class Exec:
    def __init__(self, fn, selfty):
        self.fn = fn; self.paths = []; self.obls = []
    def run(self, st):
        self.block(self.fn.body, st, lambda s: self.finish(s))
        return self.paths
    def finish(self, s): self.paths.append(s)
    # ---------------------------------------------------------------- statements
    def block(self, stmts, st, k):
        if st.done or not stmts: return k(st)
        self.stmt(stmts[0], st, lambda s: self.block(stmts[1:], s, k))
    def fork(self, st, cond, kt, kf):
        for c, kk in ((cond, kt), (z3.Not(cond), kf)):
            s = st.copy(); s.pc.append(c)
            sol = z3.Solver(); sol.set("timeout", 5000); sol.add(*s.pc)
            if sol.check() != z3.unsat: kk(s)
    def stmt(self, n, st, k):
        if isinstance(n, ast.Expr):
            if isinstance(n.value, ast.Constant): return k(st)   # docstring
            self.expr(n.value, st, lambda s, v: k(s)); return
        if isinstance(n, ast.Assign):
            def after(s, v):
                self.assign(n.targets[0], v, s); k(s)
            return self.expr(n.value, st, after)
        if isinstance(n, ast.AugAssign):
            def after(s, v):
                def after2(s2, cur):
                    nv = TV(cur.v + v.v if isinstance(n.op, ast.Add) else cur.v - v.v, "int")
                    self.assign(n.target, nv, s2); k(s2)
                self.expr(n.target, s, after2)
            return self.expr(n.value, st, after)
        if isinstance(n, ast.If):
            def after(s, c):
                self.fork(s, self.truth(c, s), lambda s1: self.block(n.body, s1, k), lambda s2: self.block(n.orelse, s2, k))
            return self.expr(n.test, st, after)
        if isinstance(n, ast.Raise):
            st.exc = ast.unparse(n.exc.func) if isinstance(n.exc, ast.Call) else "raise"; st.done = True; return self.finish(st)
        if isinstance(n, ast.Return):
            def after(s, v): s.ret = v; s.done = True; self.finish(s)
            return self.expr(n.value, st, after) if n.value else after(st, None)
        if isinstance(n, ast.While):
            return self.loop(n, st, k)
        if isinstance(n, ast.Break):
            return st.brk(st)
        raise NotImplementedError(ast.dump(n)[:80])
    def loop(self, n, st, k):
        # specialised cut-point: invariant supplied by caller as python callable on state
        inv = self.loop_inv
        self.obls.append(("loop-entry", list(st.pc), inv(st)))
        # havoc what the body assigns: here refstack contents and refgraph edges (syntactic in the real engine)
        h = st.copy(); tag = f"h{len(self.obls)}"
        rs = self.refstack_ref(st)
        # targeted havoc (no frame quantifier): only the refstack object's contents and the refgraph's edge set
        h.slen = z3.Store(st.slen, rs, z3.Const(tag + "_n", I)); h.selt = dict(h.selt)
        h.selt[Pair] = z3.Store(st.selt[Pair], rs, z3.Const(tag + "_a", z3.ArraySort(I, Pair)))
        cells = st.loc["cells"].v; rg = st.f["refgraph"][st.f["model"][cells]]
        h.re = z3.Store(st.re, rg, z3.Const(tag + "_rg", RE))
        h.loc = dict(h.loc); h.loc.pop("ref", None); h.loc.pop("_", None)
        h.pc.append(inv(h))
        def body_done(s):   # back edge
            self.obls.append(("loop-preserve", list(s.pc), inv(s)))
        def exit_(s): k(s)
        def after(s, c):
            def tbranch(s1):
                s1.brk = exit_
                self.block(n.body, s1, body_done)
            self.fork(s, self.truth(c, s), tbranch, exit_)
        self.expr(n.test, h, after)
    def refstack_ref(self, st): return st.f["refstack"][st.loc["self"].v]
    def truth(self, tv, st):
        if tv.ty == "bool": return tv.v
        if tv.ty in ("seqref", "self"): return st.slen[tv.v] != 0
        if tv.ty == "int": return tv.v != 0
        raise NotImplementedError(tv.ty)
    def assign(self, tgt, v, st):
        if isinstance(tgt, ast.Name): st.loc[tgt.id] = v; return
        if isinstance(tgt, ast.Tuple):
            assert v.ty == "pair"
            st.loc[tgt.elts[0].id] = TV(Pair.d(v.v), "int"); st.loc[tgt.elts[1].id] = TV(Pair.r(v.v), "ref"); return
        if isinstance(tgt, ast.Attribute):
            o = self.expr_now(tgt.value, st)
            st.f[tgt.attr] = z3.Store(st.f[tgt.attr], o.v, v.v); return
        raise NotImplementedError(ast.dump(tgt))
    def expr_now(self, n, st):
        out = []
        self.expr(n, st, lambda s, v: out.append(v)); assert len(out) == 1; return out[0]
    # ---------------------------------------------------------------- expressions (no forking ones here)
    def expr(self, n, st, k):
        if isinstance(n, ast.Name):
            if n.id in CONSTS: return k(st, TV(CONSTS[n.id], "const"))
            return k(st, st.loc[n.id])
        if isinstance(n, ast.Constant):
            return k(st, TV(z3.IntVal(n.value), "int") if isinstance(n.value, int) else TV(None, "opaque"))
        if isinstance(n, ast.UnaryOp) and isinstance(n.op, ast.USub):
            return self.expr(n.operand, st, lambda s, v: k(s, TV(-v.v, "int")))
        if isinstance(n, ast.Attribute):
            def after(s, o):
                kind = FIELDS[n.attr]
                val = s.f[n.attr][o.v]
                if kind == "ref":
                    ty = {"idxstack": "seqref", "refstack": "seqref", "rolledback": "seqref", "tracegraph": "graph", "refgraph": "rgraph"}.get(n.attr, "ref")
                    return k(s, TV(val, ty, SEQSORT.get(n.attr)))
                return k(s, TV(val, kind))
            return self.expr(n.value, st, after)
        if isinstance(n, ast.Subscript):
            def after(s, o):
                def after2(s2, ix):
                    if o.ty == "node":
                        return k(s2, TV(Node.obj(o.v), "ref") if ix.v == 0 else TV(Node.key(o.v), "key"))
                    if o.ty == "pair":
                        return k(s2, TV(Pair.d(o.v), "int") if ix.v == 0 else TV(Pair.r(o.v), "ref"))
                    if o.ty in ("seqref", "self"):
                        sq = s2.seq(o.v, o.elem); iv = ix.v if not isinstance(ix.v, int) else z3.IntVal(ix.v)
                        # safety obligation: index in range
                        idx = z3.If(iv >= 0, iv, sq.n + iv)
                        self.obls.append(("index-in-range", list(s2.pc), z3.And(0 <= idx, idx < sq.n)))
                        ety = {Node: "node", I: "int", Pair: "pair"}[o.elem]
                        return k(s2, TV(sq.at(iv), ety))
                    raise NotImplementedError(o.ty)
                self.expr(n.slice, s, after2)
            return self.expr(n.value, st, after)
        if isinstance(n, ast.Compare):
            def after(s, a):
                def after2(s2, b):
                    op = n.ops[0]; av, bv = a.v, b.v
                    r = {ast.Gt: lambda: av > bv, ast.GtE: lambda: av >= bv, ast.Eq: lambda: av == bv, ast.Lt: lambda: av < bv}[type(op)]()
                    k(s2, TV(r, "bool"))
                self.expr(n.comparators[0], s, after2)
            return self.expr(n.left, st, after)
        if isinstance(n, ast.BinOp) and isinstance(n.op, ast.Mod):      # "..." % x : opaque message
            return k(st, TV(None, "opaque"))
        if isinstance(n, ast.Call):
            return self.call(n, st, k)
        if isinstance(n, ast.Tuple) and len(n.elts) == 1:       # (cells,)
            return self.expr(n.elts[0], st, lambda s, c: k(s, TV(Node.objnode(c.v), "node")))
        raise NotImplementedError(ast.dump(n)[:100])
    def call(self, n, st, k):
        f = n.func
        if isinstance(f, ast.Name) and f.id == "len":
            return self.expr(n.args[0], st, lambda s, o: k(s, TV(s.slen[o.v], "int")))
        if isinstance(f, ast.Name) and f.id == "DeepReferenceError":
            return k(st, TV(None, "opaque"))
        if isinstance(f, ast.Attribute) and isinstance(f.value, ast.Name) and f.value.id == "deque":   # deque.pop(self) / deque.append(self, x)
            def after(s, o):
                sq = s.seq(o.v, Node)
                if f.attr == "pop":
                    self.obls.append(("deque.pop-nonempty", list(s.pc), sq.n > 0))
                    s.setseq(o.v, sq.droplast()); return k(s, TV(sq.last(), "node"))
                if f.attr == "append":
                    def after2(s2, x): s2.setseq(o.v, s2.seq(o.v, Node).append(x.v)); k(s2, TV(None, "none"))
                    return self.expr(n.args[1], s, after2)
            return self.expr(n.args[0], st, after)
        if isinstance(f, ast.Attribute):
            def after(s, o):
                m = f.attr
                if o.ty == "seqref":
                    sq = s.seq(o.v, o.elem)
                    if m == "pop":
                        self.obls.append(("deque.pop-nonempty", list(s.pc), sq.n > 0))
                        s.setseq(o.v, sq.droplast()); ety = {Node: "node", I: "int", Pair: "pair"}[o.elem]
                        return k(s, TV(sq.last(), ety))
                    if m == "append":
                        def after2(s2, x): s2.setseq(o.v, s2.seq(o.v, o.elem).append(x.v)); k(s2, TV(None, "none"))
                        return self.expr(n.args[0], s, after2)
                if o.ty == "graph":
                    def args(s2, vals):
                        g = o.v
                        if m == "add_edge":
                            a, b = vals[0].v, vals[1].v
                            s2.gn = z3.Store(s2.gn, g, z3.Store(z3.Store(s2.gn[g], a, True), b, True))
                            s2.ge = z3.Store(s2.ge, g, z3.Store(s2.ge[g], a, z3.Store(s2.ge[g][a], b, True))); return k(s2, TV(None, "none"))
                        if m == "add_node":
                            s2.gn = z3.Store(s2.gn, g, z3.Store(s2.gn[g], vals[0].v, True)); return k(s2, TV(None, "none"))
                        if m == "has_node": return k(s2, TV(s2.gn[g][vals[0].v], "bool"))
                        if m == "remove_node":
                            x = vals[0].v; a, b = z3.Consts("rm_a rm_b", Node)
                            s2.gn = z3.Store(s2.gn, g, z3.Store(s2.gn[g], x, False))
                            s2.ge = z3.Store(s2.ge, g, z3.Lambda([a], z3.Lambda([b], z3.And(s2.ge[g][a][b], a != x, b != x)))); return k(s2, TV(None, "none"))
                        raise NotImplementedError(m)
                    return self.exprs(n.args, s, args)
                if o.ty == "rgraph" and m == "add_edge":
                    def args(s2, vals):
                        g = o.v; r, nd = vals[0].v, vals[1].v
                        s2.re = z3.Store(s2.re, g, z3.Store(s2.re[g], r, z3.Store(s2.re[g][r], nd, True))); k(s2, TV(None, "none"))
                    return self.exprs(n.args, s, args)
                raise NotImplementedError((o.ty, m))
            return self.expr(f.value, st, after)
        raise NotImplementedError(ast.dump(n)[:100])
    def exprs(self, ns, st, k, acc=()):
        if not ns: return k(st, list(acc))
        self.expr(ns[0], st, lambda s, v: self.exprs(ns[1:], s, k, acc + (v,)))

def get_fn(path, qual):
    tree = ast.parse(open(f"{REPO}/{path}").read())
    cls, name = qual.split(".")
    for c in tree.body:
        if isinstance(c, ast.ClassDef) and c.name == cls:
            for f in c.body:
                if isinstance(f, ast.FunctionDef) and f.name == name: return f
    raise KeyError(qual)

def WF(st, cs):
    i = z3.Int("wf_i")
    stack = st.seq(cs, Node); idx = st.seq(st.f["idxstack"][cs], I); rs = st.seq(st.f["refstack"][cs], Pair)
    ic = lambda nd: st.f["is_cached"][Node.obj(nd)]
    j = z3.Int("wf_j")
    return z3.And(stack.n >= 0, stack.n == idx.n, st.f["counter"][cs] == stack.n, rs.n >= 0,
        z3.Distinct(cs, st.f["idxstack"][cs], st.f["refstack"][cs], st.f["rolledback"][st.f["executor"][cs]]),
        z3.ForAll([i], z3.Implies(z3.And(0 <= i, i < stack.n), z3.And(
            Node.is_item(stack.a[i]),
            idx.a[i] == z3.If(ic(stack.a[i]), i, z3.If(i > 0, idx.a[i - 1], -1)),
            idx.a[i] >= -1, idx.a[i] <= i, z3.Implies(idx.a[i] >= 0, ic(stack.a[idx.a[i]]))))),
        z3.ForAll([j], z3.Implies(z3.And(0 <= j, j < rs.n), z3.And(0 <= Pair.d(rs.a[j]), Pair.d(rs.a[j]) < stack.n))),
        z3.ForAll([i, j], z3.Implies(z3.And(0 <= i, i <= j, j < rs.n), Pair.d(rs.a[i]) <= Pair.d(rs.a[j]))))

def check(name, hyps, goal, timeout=20000):
    s = z3.Solver(); s.set("timeout", timeout); s.add(*hyps); s.add(z3.Not(goal))
    t = time.time(); r = s.check()
    if r == z3.sat and "conjunct" in name:
        import hashlib
        txt = s.to_smt2(); fn_ = "/tmp/spike/dump_%s.smt2" % hashlib.md5(txt.encode()).hexdigest()[:8]
        open(fn_, "w").write(txt); print("     dumped", fn_)
    verdict = "proved" if r == z3.unsat else ("REFUTED" if r == z3.sat else "undecided")
    print(f"  {verdict:9s} {time.time()-t:5.2f}s  {name}")
    return r, (s.model() if r == z3.sat else None)

def main():
    for qual in ("CallStack.append", "CallStack.pop", "CallStack.rollback"):
        fn = get_fn("modelx/core/system.py", qual)
        print(f"== {qual}  (lines {fn.lineno}-{fn.end_lineno})")
        st0 = State("s0"); cs = z3.Const("self", Ref)
        st0.loc["self"] = TV(cs, "self", Node)
        pre = [WF(st0, cs)]
        if qual == "CallStack.append":
            item = z3.Const("item", Node); st0.loc["item"] = TV(item, "node"); pre.append(Node.is_item(item))
        else:
            pre.append(st0.slen[cs] > 0)
        st0.pc = list(pre)
        run_state = st0.copy()          # st0 stays the immutable "old" state
        ex = Exec(fn, None)
        def inv(s):     # loop invariant for the refstack loop (pop/rollback)
            c1 = s.f["counter"][cs]; rs0 = st0.seq(st0.f["refstack"][cs], Pair); rs = s.seq(s.f["refstack"][cs], Pair)
            j = z3.Int("inv_j")
            node0 = st0.seq(cs, Node).last(); rg0 = st0.f["refgraph"][st0.f["model"][Node.obj(node0)]]
            edges = z3.ForAll([j], z3.Implies(z3.And(rs.n <= j, j < rs0.n), s.re[rg0][Pair.r(rs0.a[j])][node0])) if qual == "CallStack.pop" else z3.BoolVal(True)
            return z3.And(rs.n >= 0, rs.n <= rs0.n, edges,
                          z3.ForAll([j], z3.Implies(z3.And(0 <= j, j < rs.n), rs.a[j] == rs0.a[j])),
                          z3.ForAll([j], z3.Implies(z3.And(rs.n <= j, j < rs0.n), Pair.d(rs0.a[j]) == c1)))
        ex.loop_inv = inv
        paths = ex.run(run_state)
        print(f"  paths: {len(paths)}  side obligations: {len(ex.obls)}")
        for nm, hy, g in ex.obls:
            r, m = check(nm, hy, g)
            if r != z3.unsat and qual == "CallStack.pop" and z3.is_and(g):
                for ci, c in enumerate(g.children()):
                    check(f"    conjunct {ci}", hy, c, 10000)
        for p in paths:
            kind = f"raise {p.exc}" if p.exc else "normal"
            if p.exc:
                check(f"[{kind}] state unchanged", p.pc, z3.And(p.slen == st0.slen, p.selt[Node] == st0.selt[Node], p.f['counter'] == st0.f['counter']))
                continue
            check(f"[{kind}] WF preserved", p.pc, WF(p, cs))
            if qual != "CallStack.append":
                rs = p.seq(p.f["refstack"][cs], Pair); j = z3.Int("q_j")
                check(f"[{kind}] no pending ref of the popped frame left", p.pc,
                      z3.ForAll([j], z3.Implies(z3.And(0 <= j, j < rs.n), Pair.d(rs.a[j]) < p.f["counter"][cs])))
            if qual == "CallStack.pop":
                node = st0.seq(cs, Node).last(); cells = Node.obj(node)
                model = st0.f["model"][cells]; rg = st0.f["refgraph"][model]
                stack1 = p.seq(cs, Node); idx1 = p.seq(p.f["idxstack"][cs], I)
                has_caller = z3.And(stack1.n > 0, idx1.last() >= 0); caller = stack1.a[idx1.last()]
                target = z3.If(st0.f["is_cached"][cells], node, caller)
                rs0 = st0.seq(st0.f["refstack"][cs], Pair); j = z3.Int("p_j")
                # POP-REF-TARGET (from C02/C09): every pending read of the popped frame is recorded against
                # an element that holds a value: the node itself if cached, else the nearest cached caller
                goal = z3.ForAll([j], z3.Implies(z3.And(0 <= j, j < rs0.n, Pair.d(rs0.a[j]) == p.f["counter"][cs],
                                                       z3.Or(st0.f["is_cached"][cells], has_caller)),
                                                p.re[rg][Pair.r(rs0.a[j])][target]))
                r, m = check(f"[{kind}] POP-REF-TARGET", p.pc, goal)
                if r == z3.unknown:     # bounded counter-model search: small lengths make the index-bounded quantifiers finite
                    small = [st0.slen[cs] <= 3, rs0.n <= 2, st0.slen[st0.f["idxstack"][cs]] <= 3]
                    r, m = check(f"[{kind}] POP-REF-TARGET (bounded refutation search, len<=3)", p.pc + small, goal, 60000)
                if m is not None:
                    print("     counter-model: is_cached(cells) =", m.eval(st0.f["is_cached"][cells], model_completion=True),
                          "| stack len =", m.eval(st0.slen[cs]), "| refstack len =", m.eval(rs0.n))
main()
